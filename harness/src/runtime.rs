//! Sharding, panic capture, statistics, violation records and result output.

use crate::json::Json;
use crate::rng::Rng;
use std::cell::{Cell, RefCell};
use std::collections::{BTreeMap, HashMap, HashSet};
use std::panic::{catch_unwind, AssertUnwindSafe};
use std::time::Instant;

#[derive(Clone, Copy, PartialEq, Eq, Debug)]
pub enum Tier {
    Quick,
    Thorough,
}

#[derive(Clone, Debug)]
pub struct Cfg {
    pub property: String,
    pub tier: Tier,
    pub seed: u64,
    pub shards: usize,
    pub out: Option<String>,
    pub scale_num: u64,
    pub scale_den: u64,
    /// tiny workloads for the Miri interpreter
    pub miri: bool,
}

pub const BACKEND: &str = if cfg!(feature = "pext") { "pext" } else { "magic" };
pub const PROFILE: &str = if cfg!(debug_assertions) { "checked" } else { "release" };

thread_local! {
    static LAST_PANIC: RefCell<Option<String>> = RefCell::new(None);
    static IN_GUARD: Cell<bool> = Cell::new(false);
}

pub fn install_panic_hook() {
    std::panic::set_hook(Box::new(|info| {
        let msg = format!("{}", info);
        if IN_GUARD.with(|g| g.get()) {
            LAST_PANIC.with(|p| *p.borrow_mut() = Some(msg));
        } else {
            eprintln!("HARNESS PANIC (outside a guarded library call): {}", msg);
        }
    }));
}

/// Run a library call; a panic is returned as `Err(message)`.
pub fn guard<T>(f: impl FnOnce() -> T) -> Result<T, String> {
    let prev = IN_GUARD.with(|g| g.replace(true));
    let r = catch_unwind(AssertUnwindSafe(f));
    IN_GUARD.with(|g| g.set(prev));
    match r {
        Ok(v) => Ok(v),
        Err(_) => Err(LAST_PANIC.with(|p| p.borrow_mut().take()).unwrap_or_else(|| "panic (no message)".to_string())),
    }
}

#[derive(Clone, Debug)]
pub struct Violation {
    pub signature: String,
    pub what: String,
    pub witness: String,
    pub replay_argv: Vec<String>,
}

#[derive(Default)]
pub struct Stats {
    pub evaluations: u64,
    pub counters: BTreeMap<&'static str, u64>,
    pub dyn_counters: BTreeMap<String, u64>,
    pub maxima: BTreeMap<&'static str, u64>,
    pub distinct: HashSet<u64>,
    pub samples: Vec<String>,
    pub violations: Vec<Violation>,
    pub violation_count: u64,
    pub notes: Vec<String>,
    /// cross-route table: position key -> (fingerprint of the derived values, route bit mask)
    pub table: HashMap<String, (u64, u16, String)>,
    pub table_prop: &'static str,
}

pub const MAX_TABLE_PER_SHARD: usize = 150_000;

const MAX_DISTINCT_PER_SHARD: usize = 3_000_000;
const MAX_VIOLATIONS_KEPT: usize = 60;

impl Stats {
    pub fn merge(&mut self, o: Stats) {
        self.evaluations += o.evaluations;
        for (k, v) in o.counters {
            *self.counters.entry(k).or_insert(0) += v;
        }
        for (k, v) in o.dyn_counters {
            *self.dyn_counters.entry(k).or_insert(0) += v;
        }
        for (k, v) in o.maxima {
            let e = self.maxima.entry(k).or_insert(0);
            if v > *e {
                *e = v;
            }
        }
        self.distinct.extend(o.distinct);
        for s in o.samples {
            if self.samples.len() < 24 {
                self.samples.push(s);
            }
        }
        self.violation_count += o.violation_count;
        for v in o.violations {
            if !self.violations.iter().any(|x| x.signature == v.signature) && self.violations.len() < MAX_VIOLATIONS_KEPT {
                self.violations.push(v);
            }
        }
        self.notes.extend(o.notes);
        if self.table_prop.is_empty() {
            self.table_prop = o.table_prop;
        }
        for (k, (fp, routes, desc)) in o.table {
            match self.table.get_mut(&k) {
                Some(e) => {
                    if e.0 != fp {
                        self.violation_count += 1;
                        let sig = format!("{}|cross-route-table|same-key-different-values", self.table_prop);
                        if !self.violations.iter().any(|x| x.signature == sig) {
                            self.violations.push(Violation {
                                signature: sig,
                                what: "the same position key was observed with different derived values by two routes (different shards)".to_string(),
                                witness: format!("key='{}' values {:#x} ({}) vs {:#x} ({})", k, e.0, e.2, fp, desc),
                                replay_argv: vec!["none".to_string()],
                            });
                        }
                    }
                    e.1 |= routes;
                }
                None => {
                    self.table.insert(k, (fp, routes, desc));
                }
            }
        }
    }
}

pub struct Cx {
    pub rng: Rng,
    pub st: Stats,
    pub shard: usize,
    pub shards: usize,
    pub seed: u64,
    pub tier: Tier,
    scale_num: u64,
    scale_den: u64,
    pub miri: bool,
}

impl Cx {
    pub fn new(cfg: &Cfg, shard: usize) -> Cx {
        Cx {
            rng: Rng::derive(cfg.seed, shard as u64, 1),
            st: Stats::default(),
            shard,
            shards: cfg.shards,
            seed: cfg.seed,
            tier: cfg.tier,
            scale_num: cfg.scale_num,
            scale_den: cfg.scale_den,
            miri: cfg.miri,
        }
    }

    /// Per-shard operation budget for the tier (totals are divided over the shards).
    pub fn budget(&self, quick_total: u64, thorough_total: u64) -> u64 {
        let t = match self.tier {
            Tier::Quick => quick_total,
            Tier::Thorough => thorough_total,
        };
        if self.miri {
            // a few dozen operations: Miri interprets at roughly 10^4..10^5 times native cost
            return (t / 50_000).clamp(8, 40);
        }
        let t = t * self.scale_num / self.scale_den;
        let per = t / self.shards as u64;
        per.max(1)
    }

    /// Indices in 0..n handled by this shard.
    pub fn mine(&self, n: usize) -> Vec<usize> {
        (0..n).filter(|i| i % self.shards == self.shard).collect()
    }

    pub fn is_thorough(&self) -> bool {
        self.tier == Tier::Thorough
    }

    #[inline]
    pub fn eval(&mut self) {
        self.st.evaluations += 1;
    }
    #[inline]
    pub fn evals(&mut self, n: u64) {
        self.st.evaluations += n;
    }
    #[inline]
    pub fn count(&mut self, k: &'static str) {
        *self.st.counters.entry(k).or_insert(0) += 1;
    }
    #[inline]
    pub fn count_n(&mut self, k: &'static str, n: u64) {
        *self.st.counters.entry(k).or_insert(0) += n;
    }
    pub fn count_dyn(&mut self, k: String) {
        *self.st.dyn_counters.entry(k).or_insert(0) += 1;
    }
    pub fn maximum(&mut self, k: &'static str, v: u64) {
        let e = self.st.maxima.entry(k).or_insert(0);
        if v > *e {
            *e = v;
        }
    }
    /// Record a distinct non-trivial case by its 64-bit key.
    #[inline]
    pub fn distinct(&mut self, key: u64) {
        if self.st.distinct.len() < MAX_DISTINCT_PER_SHARD {
            self.st.distinct.insert(key);
        }
    }
    pub fn sample(&mut self, f: impl FnOnce() -> String) {
        if self.st.samples.len() < 3 {
            let s = f();
            self.st.samples.push(s);
        }
    }
    pub fn note(&mut self, s: String) {
        if self.st.notes.len() < 20 {
            self.st.notes.push(s);
        }
    }

    /// Cross-route table: `key` must always map to the same fingerprint `fp`, whatever the route.
    /// Returns false on a conflict (the caller reports the violation with full context).
    pub fn table_put(&mut self, key: String, fp: u64, route_bit: u16, desc: &str) -> Result<(), (u64, String)> {
        if let Some(e) = self.st.table.get_mut(&key) {
            e.1 |= route_bit;
            if e.0 != fp {
                return Err((e.0, e.2.clone()));
            }
            return Ok(());
        }
        if self.st.table.len() < MAX_TABLE_PER_SHARD {
            self.st.table.insert(key, (fp, route_bit, desc.to_string()));
        }
        Ok(())
    }

    pub fn violation(&mut self, signature: String, what: String, witness: String, replay_argv: Vec<String>) {
        self.st.violation_count += 1;
        if self.st.violations.len() < MAX_VIOLATIONS_KEPT && !self.st.violations.iter().any(|v| v.signature == signature) {
            self.st.violations.push(Violation { signature, what, witness, replay_argv });
        }
    }
}

pub fn fnv(bytes: &[u8]) -> u64 {
    let mut h: u64 = 0xcbf29ce484222325;
    for &b in bytes {
        h ^= b as u64;
        h = h.wrapping_mul(0x100000001b3);
    }
    // final avalanche
    h ^= h >> 32;
    h = h.wrapping_mul(0x9E3779B97F4A7C15);
    h ^ (h >> 29)
}

pub fn mix(a: u64, b: u64) -> u64 {
    let mut h = a ^ b.wrapping_mul(0x9E3779B97F4A7C15).rotate_left(23);
    h = h.wrapping_mul(0xD6E8FEB86659FD93);
    h ^ (h >> 32)
}

/// Run `f` on `cfg.shards` shards in parallel (one OS thread each) and merge the statistics.
/// A panic of the harness itself (outside `guard`) is reported as `Err` => inconclusive.
pub fn run_sharded<F>(cfg: &Cfg, f: F) -> Result<Stats, String>
where
    F: Fn(&mut Cx) + Sync,
{
    let mut merged = Stats::default();
    let mut errors = Vec::new();
    std::thread::scope(|s| {
        let mut hs = Vec::new();
        for shard in 0..cfg.shards {
            let f = &f;
            let cfg = cfg.clone();
            hs.push(
                std::thread::Builder::new()
                    .stack_size(64 << 20)
                    .spawn_scoped(s, move || {
                        let mut cx = Cx::new(&cfg, shard);
                        f(&mut cx);
                        cx.st
                    })
                    .expect("spawn"),
            );
        }
        for (i, h) in hs.into_iter().enumerate() {
            match h.join() {
                Ok(st) => merged.merge(st),
                Err(_) => errors.push(format!("shard {} panicked in harness code", i)),
            }
        }
    });
    if errors.is_empty() {
        Ok(merged)
    } else {
        Err(errors.join("; "))
    }
}

pub struct Floor {
    pub counter: &'static str,
    pub at_least: u64,
}

pub struct Outcome {
    pub stats: Stats,
    pub rule: String,
    pub floors: Vec<Floor>,
    pub exhaustive: bool,
    pub exhaustive_note: String,
    pub inconclusive: Option<String>,
}

pub fn write_result(cfg: &Cfg, out: &Outcome, started: Instant) {
    let st = &out.stats;
    let mut counters = Json::obj();
    for (k, v) in &st.counters {
        counters.set(k, Json::Int(*v as i64));
    }
    for (k, v) in &st.dyn_counters {
        counters.set(k, Json::Int(*v as i64));
    }
    let mut maxima = Json::obj();
    for (k, v) in &st.maxima {
        maxima.set(k, Json::Int(*v as i64));
    }
    let mut missed = Vec::new();
    for f in &out.floors {
        let got = st.counters.get(f.counter).copied().unwrap_or(0).max(st.maxima.get(f.counter).copied().unwrap_or(0)).max(st.dyn_counters.get(f.counter).copied().unwrap_or(0));
        if got < f.at_least {
            missed.push(Json::Str(format!("{} observed {} < floor {}", f.counter, got, f.at_least)));
        }
    }
    let mut floors = Json::obj();
    for f in &out.floors {
        floors.set(f.counter, Json::Int(f.at_least as i64));
    }
    let viols: Vec<Json> = st
        .violations
        .iter()
        .map(|v| {
            let mut o = Json::obj();
            o.set("signature", Json::Str(v.signature.clone()));
            o.set("what", Json::Str(v.what.clone()));
            o.set("witness", Json::Str(v.witness.clone()));
            o.set("replay_argv", Json::Arr(v.replay_argv.iter().map(|s| Json::Str(s.clone())).collect()));
            o
        })
        .collect();
    let mut o = Json::obj();
    o.set("property", Json::Str(cfg.property.clone()));
    o.set("backend", Json::Str(BACKEND.to_string()));
    o.set("profile", Json::Str(PROFILE.to_string()));
    o.set("tier", Json::Str(match cfg.tier { Tier::Quick => "quick", Tier::Thorough => "thorough" }.to_string()));
    o.set("seed", Json::Int(cfg.seed as i64));
    o.set("shards", Json::Int(cfg.shards as i64));
    o.set("evaluations", Json::Int(st.evaluations as i64));
    o.set("distinct_nontrivial", Json::Int(st.distinct.len() as i64));
    o.set("rule", Json::Str(out.rule.clone()));
    o.set("exhaustive", Json::Bool(out.exhaustive));
    o.set("exhaustive_note", Json::Str(out.exhaustive_note.clone()));
    o.set("counters", counters);
    o.set("maxima", maxima);
    o.set("floors", floors);
    o.set("floors_missed", Json::Arr(missed));
    o.set("samples", Json::Arr(st.samples.iter().map(|s| Json::Str(s.clone())).collect()));
    o.set("notes", Json::Arr(st.notes.iter().map(|s| Json::Str(s.clone())).collect()));
    o.set("violation_count", Json::Int(st.violation_count as i64));
    o.set("violations", Json::Arr(viols));
    o.set(
        "inconclusive",
        match &out.inconclusive {
            Some(s) => Json::Str(s.clone()),
            None => Json::Null,
        },
    );
    o.set("wall_s", Json::Num(started.elapsed().as_secs_f64()));
    let text = o.render();
    match &cfg.out {
        Some(p) => std::fs::write(p, text).expect("write result"),
        None => println!("{}", text),
    }
}
