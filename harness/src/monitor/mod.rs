//! One monitor per property. Shared helpers live here.

pub mod boards_a; // C01 C02 C03 C04 C12 C14 C15 C16
pub mod boards_b; // C06 C07 C09 C10 C13
pub mod c05;
pub mod c08;
pub mod c11;
pub mod c17;
pub mod c18;
pub mod c19;
pub mod c20;

use crate::refmodel::*;
use crate::runtime::*;
use crate::workload::*;
use cozy_chess::{BitBoard, Board, BoardBuilder, Move, Piece, PieceMoves, Square};

pub fn bb_squares(bb: BitBoard) -> Vec<usize> {
    let mut v = Vec::new();
    for i in 0..64 {
        if (bb.0 >> i) & 1 == 1 {
            v.push(i);
        }
    }
    v
}

pub fn squares_text(v: &[usize]) -> String {
    let names: Vec<String> = v.iter().map(|&s| sq_name(s)).collect();
    format!("{{{}}}", names.join(","))
}

/// All batches and the flattened move list of `generate_moves`.
pub fn lib_generate(b: &Board) -> Result<(Vec<PieceMoves>, Vec<Move>, bool), String> {
    guard(|| {
        let mut batches = Vec::new();
        let ret = b.generate_moves(|pm| {
            batches.push(pm);
            false
        });
        let mut moves = Vec::new();
        for pm in &batches {
            for m in *pm {
                moves.push(m);
            }
        }
        (batches, moves, ret)
    })
}

pub fn move_index(m: Move) -> usize {
    let p = match m.promotion {
        None => 0,
        Some(Piece::Pawn) => 1,
        Some(Piece::Knight) => 2,
        Some(Piece::Bishop) => 3,
        Some(Piece::Rook) => 4,
        Some(Piece::Queen) => 5,
        Some(Piece::King) => 6,
    };
    ((m.from as usize) * 64 + m.to as usize) * 7 + p
}

pub const PROMOS: [Option<Piece>; 7] =
    [None, Some(Piece::Pawn), Some(Piece::Knight), Some(Piece::Bishop), Some(Piece::Rook), Some(Piece::Queen), Some(Piece::King)];

pub fn all_move_values() -> Vec<Move> {
    let mut v = Vec::with_capacity(28672);
    for f in 0..64 {
        for t in 0..64 {
            for p in PROMOS {
                v.push(Move { from: Square::ALL[f], to: Square::ALL[t], promotion: p });
            }
        }
    }
    v
}

pub fn move_kind(m: &RPos, mv: RMove) -> &'static str {
    if m.is_castle(mv) {
        "castle"
    } else if m.is_ep_capture(mv) {
        "en-passant"
    } else if mv.promo.is_some() {
        if m.is_capture(mv) {
            "capture-promotion"
        } else {
            "promotion"
        }
    } else if m.is_capture(mv) {
        "capture"
    } else {
        "quiet"
    }
}

pub fn piece_name(p: Option<Piece>) -> &'static str {
    match p {
        None => "none",
        Some(Piece::Pawn) => "pawn",
        Some(Piece::Knight) => "knight",
        Some(Piece::Bishop) => "bishop",
        Some(Piece::Rook) => "rook",
        Some(Piece::Queen) => "queen",
        Some(Piece::King) => "king",
    }
}

pub fn check_class(n: usize) -> &'static str {
    match n {
        0 => "no-check",
        1 => "single-check",
        2 => "double-check",
        _ => "3+-checkers",
    }
}

/// Report a violation found on a board reached through `ev.hist`.
pub fn board_violation(cx: &mut Cx, prop: &str, sig: String, what: String, b: &Board, m: &RPos, ev: &Ev) {
    let witness = format!(
        "board='{}' (library text '{}') source={} {} backend={} profile={}",
        fen::write_fen(m, true),
        guard(|| format!("{:#}", b)).unwrap_or_else(|e| format!("<Display panicked: {}>", e)),
        ev.source,
        ev.hist.describe(),
        BACKEND,
        PROFILE
    );
    let mut argv = vec!["board".to_string(), prop.to_string()];
    argv.extend(ev.hist.replay_args());
    cx.violation(format!("{}|{}", prop, sig), what, witness, argv);
}

/// Rebuild a board through the builder and through Shredder-FEN text.
pub fn rebuilt(b: &Board) -> (Result<Option<Board>, String>, Result<Option<Board>, String>) {
    let via_builder = guard(|| BoardBuilder::from_board(b).build().ok());
    let via_text = guard(|| {
        let t = format!("{:#}", b);
        Board::from_fen(&t, true).ok()
    });
    (via_builder, via_text)
}

/// Coverage classes of a position shared by several monitors; returns true if the position is
/// non-trivial (falls in at least one special class).
pub fn classify(cx: &mut Cx, m: &RPos, legal: &[RMove]) -> bool {
    let mut nontrivial = false;
    let nchk = m.checkers().len();
    match nchk {
        0 => cx.count("class:no-check"),
        1 => cx.count("class:single-check"),
        2 => cx.count("class:double-check"),
        _ => cx.count("class:3+-checkers"),
    }
    if nchk > 0 {
        nontrivial = true;
    }
    let pinned = m.pinned();
    if !pinned.is_empty() {
        nontrivial = true;
        let own = pinned.iter().filter(|&&s| matches!(m.sq[s], Some((c, _)) if c == m.stm)).count();
        if own > 0 {
            cx.count("class:own-piece-pinned");
        }
        if own < pinned.len() {
            cx.count("class:enemy-piece-pinned");
        }
        if pinned.len() >= 2 {
            cx.count("class:two-or-more-pinned");
        }
    }
    if m.ep.is_some() {
        nontrivial = true;
        let target = m.ep_target().unwrap();
        let pseudo_ep = m.pseudo_moves().iter().filter(|mv| mv.to as usize == target && m.is_ep_capture(**mv)).count();
        let legal_ep = legal.iter().filter(|mv| m.is_ep_capture(**mv)).count();
        if legal_ep > 0 {
            cx.count("class:ep-capture-legal");
        }
        if pseudo_ep > legal_ep {
            cx.count("class:ep-capture-pseudo-legal-but-illegal");
        }
        if pseudo_ep == 0 {
            cx.count("class:ep-file-without-capturer");
        }
        if nchk > 0 {
            cx.count("class:ep-file-while-in-check");
        }
    }
    let r = m.rights[ci(m.stm)];
    if r[0].is_some() || r[1].is_some() {
        nontrivial = true;
        let castles = legal.iter().filter(|mv| m.is_castle(**mv)).count();
        let rights = r.iter().filter(|x| x.is_some()).count();
        if castles > 0 {
            cx.count_n("class:castling-legal", castles as u64);
        }
        if castles < rights {
            cx.count_n("class:castling-right-but-illegal", (rights - castles) as u64);
        }
        let kf = m.king_sq(m.stm).map(|k| k % 8).unwrap_or(4);
        if kf != 4 || r[0].map_or(false, |f| f != 7) || r[1].map_or(false, |f| f != 0) {
            cx.count("class:chess960-rights-geometry");
        }
    }
    if legal.iter().any(|mv| mv.promo.is_some()) {
        nontrivial = true;
        cx.count("class:promotion-available");
    }
    if legal.is_empty() {
        nontrivial = true;
        if nchk > 0 {
            cx.count("class:checkmate");
        } else {
            cx.count("class:stalemate");
        }
    }
    nontrivial
}

pub fn pos_key(m: &RPos) -> u64 {
    fnv(m.key_text().as_bytes())
}

pub fn boards_a_diff(a: &RPos, b: &RPos) -> &'static str {
    boards_a::diff_field(a, b).unwrap_or("none")
}
