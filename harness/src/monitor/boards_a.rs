//! Board-level monitors C01 C02 C03 C04 C12 C14 C15 C16.

use super::*;
use crate::refmodel::fen::write_fen;
use cozy_chess::{Color, GameStatus};

pub fn route_bit(ev: &Ev) -> u16 {
    match ev.kind {
        EvKind::Play => 8,
        EvKind::Null => 16,
        EvKind::Root => match ev.hist.route {
            "fen" | "fromstr" => 1,
            "builder" => 2,
            "start960" | "dfrc" => 4,
            "setters" => 32,
            _ => 64,
        },
    }
}

// ------------------------------------------------------------------------------------------ C01

pub struct C01;

impl BoardMonitor for C01 {
    fn on_board(&mut self, cx: &mut Cx, b: &Board, m: &RPos, ev: &Ev) {
        cx.eval();
        let legal = m.legal_moves();
        let nchk = m.checkers().len();
        let (batches, moves, _ret) = match lib_generate(b) {
            Ok(x) => x,
            Err(e) => {
                board_violation(cx, "C01", format!("panic|generate_moves|{}", check_class(nchk)), format!("generate_moves panicked: {}", e), b, m, ev);
                return;
            }
        };
        for pm in &batches {
            let from = pm.from as usize;
            if m.sq[from] != Some((m.stm, pm.piece)) {
                board_violation(
                    cx,
                    "C01",
                    format!("batch-piece-mismatch|{}", piece_name(Some(pm.piece))),
                    format!("batch says {:?} on {} but the board has {:?} there", pm.piece, sq_name(from), m.sq[from]),
                    b,
                    m,
                    ev,
                );
            }
        }
        let mut got: Vec<RMove> = moves.iter().map(|&x| RMove::of(x)).collect();
        got.sort();
        for w in got.windows(2) {
            if w[0] == w[1] {
                board_violation(
                    cx,
                    "C01",
                    format!("duplicate|{}|{}", piece_name(m.sq[w[0].from as usize].map(|x| x.1)), move_kind(m, w[0])),
                    format!("move {} delivered more than once", w[0].text()),
                    b,
                    m,
                    ev,
                );
            }
        }
        got.dedup();
        let mut want = legal.clone();
        want.sort();
        if got != want {
            for g in &got {
                if !want.contains(g) {
                    let pc = m.sq[g.from as usize].map(|x| x.1);
                    let kind = if m.sq[g.to as usize].map(|x| x.1) == Some(Piece::King) { "king-capture" } else { move_kind(m, *g) };
                    board_violation(
                        cx,
                        "C01",
                        format!("illegal-move-generated|{}|{}|{}", piece_name(pc), kind, check_class(nchk)),
                        format!("generate_moves yields {} which is not a legal move (model legal set: {})", g.text(), want.iter().map(|x| x.text()).collect::<Vec<_>>().join(" ")),
                        b,
                        m,
                        ev,
                    );
                }
            }
            for w in &want {
                if !got.contains(w) {
                    let pc = m.sq[w.from as usize].map(|x| x.1);
                    board_violation(
                        cx,
                        "C01",
                        format!("legal-move-missing|{}|{}|{}", piece_name(pc), move_kind(m, *w), check_class(nchk)),
                        format!("legal move {} is not generated (library set: {})", w.text(), got.iter().map(|x| x.text()).collect::<Vec<_>>().join(" ")),
                        b,
                        m,
                        ev,
                    );
                }
            }
        }
        cx.count_n("moves_compared", want.len() as u64);
        if classify(cx, m, &legal) {
            cx.distinct(pos_key(m));
        }
        cx.sample(|| format!("{} -> {} legal moves, {} batches", write_fen(m, true), want.len(), batches.len()));
    }
}

// ------------------------------------------------------------------------------------------ C02

pub struct C02;

pub fn diff_field(a: &RPos, b: &RPos) -> Option<&'static str> {
    if a.sq != b.sq {
        return Some("placement");
    }
    if a.stm != b.stm {
        return Some("side-to-move");
    }
    if a.rights != b.rights {
        return Some("castling-rights");
    }
    if a.ep != b.ep {
        return Some("en-passant-file");
    }
    if a.half != b.half {
        return Some("halfmove-clock");
    }
    if a.full != b.full {
        return Some("fullmove-number");
    }
    None
}

impl BoardMonitor for C02 {
    fn on_board(&mut self, cx: &mut Cx, b: &Board, m: &RPos, ev: &Ev) {
        let legal = m.legal_moves();
        let mut nontrivial = false;
        for (i, &mv) in legal.iter().enumerate() {
            cx.eval();
            let kind = move_kind(m, mv);
            let pc = m.sq[mv.from as usize].map(|x| x.1);
            let want = m.make(mv);
            let mut nb = b.clone();
            if let Err(e) = guard(|| nb.play_unchecked(mv.lib())) {
                board_violation(cx, "C02", format!("panic|play_unchecked|{}|{}", piece_name(pc), kind), format!("play_unchecked({}) panicked: {}", mv.text(), e), b, m, ev);
                continue;
            }
            let got = RPos::observe(&nb);
            if let Some(field) = diff_field(&got, &want) {
                board_violation(
                    cx,
                    "C02",
                    format!("successor|{}|{}|{}", field, piece_name(pc), kind),
                    format!("after {} the library has '{}' but the rules give '{}' (first differing field: {})", mv.text(), write_fen(&got, true), write_fen(&want, true), field),
                    b,
                    m,
                    ev,
                );
            }
            // the checked variants must produce the identical board
            if (i + cx.st.evaluations as usize) % 3 == 0 {
                let mut b2 = b.clone();
                match guard(|| b2.try_play(mv.lib())) {
                    Ok(Ok(())) => {
                        if b2 != nb {
                            board_violation(cx, "C02", format!("try_play-differs|{}", kind), format!("try_play({}) and play_unchecked give different boards", mv.text()), b, m, ev);
                        }
                    }
                    Ok(Err(_)) => board_violation(cx, "C02", format!("try_play-rejects-legal|{}|{}", piece_name(pc), kind), format!("try_play({}) rejected a legal move", mv.text()), b, m, ev),
                    Err(e) => board_violation(cx, "C02", format!("panic|try_play|{}", kind), format!("try_play({}) panicked: {}", mv.text(), e), b, m, ev),
                }
                let mut b3 = b.clone();
                match guard(|| b3.play(mv.lib())) {
                    Ok(()) => {
                        if b3 != nb {
                            board_violation(cx, "C02", format!("play-differs|{}", kind), format!("play({}) and play_unchecked give different boards", mv.text()), b, m, ev);
                        }
                    }
                    Err(e) => board_violation(cx, "C02", format!("panic|play|{}|{}", piece_name(pc), kind), format!("play({}) panicked on a legal move: {}", mv.text(), e), b, m, ev),
                }
                // Display of the successor
                if let Ok(t) = guard(|| format!("{:#}", nb)) {
                    let w = write_fen(&want, true);
                    if t != w {
                        board_violation(cx, "C02", format!("display-of-successor|{}", kind), format!("after {} Display gives '{}', expected '{}'", mv.text(), t, w), b, m, ev);
                    }
                }
            }
            // coverage classes
            match kind {
                "castle" => {
                    nontrivial = true;
                    let short = mv.to % 8 > mv.from % 8;
                    cx.count(if short { "castle-played:short" } else { "castle-played:long" });
                    let (kd, rd) = if short { (6, 5) } else { (2, 3) };
                    if mv.from % 8 == kd {
                        cx.count("castle:king-does-not-move");
                    }
                    if mv.to % 8 == rd {
                        cx.count("castle:rook-does-not-move");
                    }
                    if mv.from % 8 == rd && mv.to % 8 == kd {
                        cx.count("castle:king-and-rook-swap");
                    }
                    if mv.from % 8 != 4 || (mv.to % 8 != 0 && mv.to % 8 != 7) {
                        cx.count("castle:chess960-geometry");
                    }
                    cx.count("right-lost:castling");
                }
                "en-passant" => {
                    nontrivial = true;
                    cx.count("ep-capture-played");
                }
                "promotion" | "capture-promotion" => {
                    nontrivial = true;
                    cx.count("promotion-played");
                }
                _ => {}
            }
            for c in 0..2 {
                for w in 0..2 {
                    if m.rights[c][w].is_some() && want.rights[c][w].is_none() && kind != "castle" {
                        nontrivial = true;
                        let own = c == ci(m.stm);
                        if own && pc == Some(Piece::King) {
                            cx.count("right-lost:king-move");
                        } else if own {
                            cx.count("right-lost:rook-leaves-square");
                        } else {
                            cx.count("right-lost:capture-on-square");
                            if mv.promo.is_some() {
                                cx.count("right-lost:capture-promotion-on-square");
                            }
                        }
                    }
                }
            }
            if want.ep.is_some() {
                cx.count("ep-file-set");
            }
            if m.ep.is_some() && want.ep.is_none() {
                cx.count("ep-file-cleared");
            }
            if m.half >= 99 && want.half == 100 {
                nontrivial = true;
                cx.count("halfmove-reaches-or-stays-100");
            }
            if m.full == 65535 && m.stm == Color::Black {
                nontrivial = true;
                cx.count("fullmove-saturated");
            }
        }
        if nontrivial || m.ep.is_some() || m.checkers().len() > 0 {
            cx.distinct(pos_key(m));
        }
        cx.sample(|| {
            format!(
                "{} : {}",
                write_fen(m, true),
                legal.iter().take(6).map(|mv| format!("{}=>{}", mv.text(), write_fen(&m.make(*mv), true))).collect::<Vec<_>>().join(" | ")
            )
        });
    }
}

// ------------------------------------------------------------------------------------------ C03

pub struct C03;

impl BoardMonitor for C03 {
    fn on_board(&mut self, cx: &mut Cx, b: &Board, m: &RPos, ev: &Ev) {
        cx.eval();
        let how = match ev.kind {
            EvKind::Root => "root",
            EvKind::Play => "after-play",
            EvKind::Null => "after-null-move",
        };
        let got_c = bb_squares(b.checkers());
        let got_p = bb_squares(b.pinned());
        let want_c = m.checkers();
        let want_p = m.pinned();
        if got_c != want_c {
            let kinds: Vec<&str> = want_c.iter().chain(got_c.iter()).map(|&s| piece_name(m.sq[s].map(|x| x.1))).collect();
            board_violation(
                cx,
                "C03",
                format!("checkers|{}|{}|{}", how, if got_c.len() < want_c.len() { "missing" } else { "extra-or-wrong" }, kinds.first().copied().unwrap_or("none")),
                format!("checkers() = {} but the pieces attacking the mover's king are {}", squares_text(&got_c), squares_text(&want_c)),
                b,
                m,
                ev,
            );
        }
        if got_p != want_p {
            board_violation(
                cx,
                "C03",
                format!("pinned|{}|{}", how, if got_p.len() < want_p.len() { "missing" } else { "extra-or-wrong" }),
                format!("pinned() = {} but by definition the pinned set is {}", squares_text(&got_p), squares_text(&want_p)),
                b,
                m,
                ev,
            );
        }
        let (vb, vt) = rebuilt(b);
        for (name, r) in [("builder", vb), ("shredder-text", vt)] {
            match r {
                Ok(Some(fresh)) => {
                    if fresh != *b {
                        let what = if fresh.checkers() != b.checkers() {
                            "checkers"
                        } else if fresh.pinned() != b.pinned() {
                            "pinned"
                        } else if fresh.hash() != b.hash() {
                            "hash"
                        } else {
                            "other"
                        };
                        board_violation(
                            cx,
                            "C03",
                            format!("not-equal-to-fresh|{}|{}|{}", name, how, what),
                            format!("board != board freshly constructed through {} ({} differs: checkers {} vs {}, pinned {} vs {})", name, what,
                                squares_text(&bb_squares(b.checkers())), squares_text(&bb_squares(fresh.checkers())),
                                squares_text(&bb_squares(b.pinned())), squares_text(&bb_squares(fresh.pinned()))),
                            b,
                            m,
                            ev,
                        );
                    }
                }
                Ok(None) => {
                    // refusal to re-enter is C06/C07/C09 territory; counted only
                    cx.count("fresh_construction_refused");
                }
                Err(e) => board_violation(cx, "C03", format!("panic|rebuild|{}", name), format!("rebuilding through {} panicked: {}", name, e), b, m, ev),
            }
        }
        // cross-route table: same position and clocks => same checkers / pins
        let key = write_fen(m, true);
        let fp = mix(b.checkers().0, b.pinned().0.rotate_left(17));
        if let Err((other_fp, other_desc)) = cx.table_put(key.clone(), fp, route_bit(ev), how) {
            board_violation(
                cx,
                "C03",
                "cross-route|same-position-different-checkers-or-pins".to_string(),
                format!("position '{}' reached before ({}) with fingerprint {:#x}, now {:#x}", key, other_desc, other_fp, fp),
                b,
                m,
                ev,
            );
        }
        if !want_p.is_empty() {
            cx.count("boards-with-pins");
            if want_p.iter().any(|&s| matches!(m.sq[s], Some((c, _)) if c != m.stm)) {
                cx.count("boards-with-enemy-piece-pinned");
            }
        }
        match want_c.len() {
            0 => {}
            1 => cx.count("boards-in-single-check"),
            _ => cx.count("boards-in-double-check"),
        }
        match ev.kind {
            EvKind::Null => cx.count("observed-after-null-move"),
            EvKind::Play => {
                cx.count("observed-after-play");
                if let (Some((_, pm)), Some(mv)) = (ev.prev, ev.mv) {
                    match move_kind(pm, mv) {
                        "castle" => cx.count("observed-after-castling"),
                        "en-passant" => cx.count("observed-after-en-passant"),
                        "promotion" | "capture-promotion" => cx.count("observed-after-promotion"),
                        _ => {}
                    }
                }
            }
            EvKind::Root => cx.count("observed-at-root"),
        }
        if !want_p.is_empty() || !want_c.is_empty() {
            cx.distinct(fnv(key.as_bytes()));
        }
        cx.sample(|| format!("{} [{}] checkers={} pinned={}", key, ev.hist.describe(), squares_text(&want_c), squares_text(&want_p)));
    }
}

// ------------------------------------------------------------------------------------------ C04

pub struct C04 {
    pub all: Vec<Move>,
}

impl C04 {
    pub fn new() -> C04 {
        C04 { all: all_move_values() }
    }
}

impl BoardMonitor for C04 {
    fn on_board(&mut self, cx: &mut Cx, b: &Board, m: &RPos, ev: &Ev) {
        let (_, moves, _) = match lib_generate(b) {
            Ok(x) => x,
            Err(_) => {
                cx.count("generate_moves_panicked(reported by C01)");
                return;
            }
        };
        let mut gen = vec![false; 28672];
        for mv in &moves {
            gen[move_index(*mv)] = true;
        }
        let all = &self.all;
        let answers = guard(|| all.iter().map(|&mv| b.is_legal(mv)).collect::<Vec<bool>>());
        let answers: Vec<Option<bool>> = match answers {
            Ok(v) => v.into_iter().map(Some).collect(),
            Err(_) => all.iter().map(|&mv| guard(|| b.is_legal(mv)).ok()).collect(),
        };
        cx.evals(28672);
        let nchk = m.checkers().len();
        let mut trues = 0u64;
        for (i, a) in answers.iter().enumerate() {
            let mv = all[i];
            let rm = RMove::of(mv);
            let pc = m.sq[rm.from as usize];
            match a {
                None => board_violation(
                    cx,
                    "C04",
                    format!("panic|is_legal|from={}|promotion={}", piece_name(pc.map(|x| x.1)), piece_name(mv.promotion)),
                    format!("is_legal({}) panicked", rm.text()),
                    b,
                    m,
                    ev,
                ),
                Some(ans) => {
                    if *ans {
                        trues += 1;
                    }
                    if *ans != gen[i] {
                        let own = matches!(pc, Some((c, _)) if c == m.stm);
                        board_violation(
                            cx,
                            "C04",
                            format!(
                                "is_legal={}|generated={}|piece={}|own={}|promotion={}|{}",
                                ans, gen[i], piece_name(pc.map(|x| x.1)), own, piece_name(mv.promotion), check_class(nchk)
                            ),
                            format!("is_legal({}) = {} but generate_moves {} that move", rm.text(), ans, if gen[i] { "yields" } else { "does not yield" }),
                            b,
                            m,
                            ev,
                        );
                    }
                }
            }
        }
        cx.count_n("is_legal_true_answers", trues);
        let legal: Vec<RMove> = moves.iter().map(|&x| RMove::of(x)).collect();
        if classify(cx, m, &legal) {
            cx.distinct(pos_key(m));
        }
        cx.sample(|| format!("{} : 28672 move values queried, {} answered true", write_fen(m, true), trues));
    }
}

// ------------------------------------------------------------------------------------------ C12

pub struct C12;

impl BoardMonitor for C12 {
    fn on_board(&mut self, cx: &mut Cx, b: &Board, m: &RPos, ev: &Ev) {
        cx.eval();
        let want = m.status();
        let got = match guard(|| b.status()) {
            Ok(s) => s,
            Err(e) => {
                board_violation(cx, "C12", "panic|status".to_string(), format!("status() panicked: {}", e), b, m, ev);
                return;
            }
        };
        let got_r = match got {
            GameStatus::Won => RStatus::Won,
            GameStatus::Drawn => RStatus::Drawn,
            GameStatus::Ongoing => RStatus::Ongoing,
        };
        let in_check = m.in_check(m.stm);
        let any = !m.legal_moves().is_empty();
        if got_r != want {
            board_violation(
                cx,
                "C12",
                format!("status|got={:?}|want={:?}|in-check={}|has-move={}|clock>=100:{}", got_r, want, in_check, any, m.half >= 100),
                format!("status() = {:?} but the rules give {:?} (in check: {}, has legal move: {}, half-move clock {})", got_r, want, in_check, any, m.half),
                b,
                m,
                ev,
            );
        }
        let class: &'static str = match (any, in_check, m.half) {
            (false, true, 100) => "checkmate-with-clock-100",
            (false, true, _) => "checkmate",
            (false, false, 100) => "stalemate-with-clock-100",
            (false, false, _) => "stalemate",
            (true, _, 100) => "fifty-move-draw",
            (true, _, 99) => "ongoing-at-99",
            (true, true, _) => "ongoing-in-check",
            _ => "ongoing",
        };
        cx.count_dyn(format!("status:{}", class));
        match class {
            "checkmate" | "checkmate-with-clock-100" => cx.count("status-won"),
            "stalemate" | "stalemate-with-clock-100" => cx.count("status-stalemate"),
            "fifty-move-draw" => cx.count("status-fifty"),
            "ongoing-at-99" => cx.count("status-ongoing-99"),
            _ => {}
        }
        if class == "checkmate-with-clock-100" {
            cx.count("status-won-at-100");
        }
        if class != "ongoing" {
            cx.distinct(fnv(write_fen(m, true).as_bytes()));
        }
        if class != "ongoing" {
            cx.sample(|| format!("{} -> {:?} ({})", write_fen(m, true), got_r, class));
        }
    }
}

// ------------------------------------------------------------------------------------------ C14

pub struct C14;

impl BoardMonitor for C14 {
    fn on_board(&mut self, cx: &mut Cx, b: &Board, m: &RPos, ev: &Ev) {
        cx.eval();
        let in_check = m.in_check(m.stm);
        let r = match guard(|| b.null_move()) {
            Ok(r) => r,
            Err(e) => {
                board_violation(cx, "C14", "panic|null_move".to_string(), format!("null_move() panicked: {}", e), b, m, ev);
                return;
            }
        };
        match (&r, in_check) {
            (None, true) => {
                if m.checkers().len() >= 2 {
                    cx.count("refused-in-double-check");
                } else {
                    cx.count("refused-in-single-check");
                }
                cx.distinct(fnv(write_fen(m, true).as_bytes()));
                return;
            }
            (None, false) => {
                board_violation(cx, "C14", "refused-when-not-in-check".to_string(), "null_move() returned None although the mover is not in check".to_string(), b, m, ev);
                return;
            }
            (Some(_), true) => {
                board_violation(
                    cx,
                    "C14",
                    format!("offered-in-check|{}", check_class(m.checkers().len())),
                    format!("null_move() returned a board although the mover is in check by {}", squares_text(&m.checkers())),
                    b,
                    m,
                    ev,
                );
                return;
            }
            _ => {}
        }
        let nb = r.unwrap();
        let got = RPos::observe(&nb);
        let want = m.make_null();
        if let Some(field) = diff_field(&got, &want) {
            board_violation(
                cx,
                "C14",
                format!("successor|{}", field),
                format!("null move gives '{}' but should give '{}' (field {})", write_fen(&got, true), write_fen(&want, true), field),
                b,
                m,
                ev,
            );
        }
        let gc = bb_squares(nb.checkers());
        let gp = bb_squares(nb.pinned());
        if gc != want.checkers() {
            board_violation(cx, "C14", "checkers-after-null".to_string(), format!("after the null move checkers() = {} want {}", squares_text(&gc), squares_text(&want.checkers())), b, m, ev);
        }
        if gp != want.pinned() {
            board_violation(
                cx,
                "C14",
                format!("pinned-after-null|{}", if gp.len() < want.pinned().len() { "missing" } else { "extra-or-wrong" }),
                format!("after the null move pinned() = {} want {}", squares_text(&gp), squares_text(&want.pinned())),
                b,
                m,
                ev,
            );
        }
        let (vb, vt) = rebuilt(&nb);
        for (name, r) in [("builder", vb), ("shredder-text", vt)] {
            match r {
                Ok(Some(fresh)) => {
                    if fresh != nb {
                        let what = if fresh.hash() != nb.hash() {
                            "hash"
                        } else if fresh.checkers() != nb.checkers() {
                            "checkers"
                        } else if fresh.pinned() != nb.pinned() {
                            "pinned"
                        } else {
                            "other"
                        };
                        board_violation(
                            cx,
                            "C14",
                            format!("not-equal-to-fresh|{}|{}", name, what),
                            format!("null-move result differs from a board freshly constructed through {} in {}", name, what),
                            b,
                            m,
                            ev,
                        );
                    }
                }
                Ok(None) => {
                    // the position after a null move may be legitimately unenterable only if the
                    // library's own validation refuses it; that is a C06 matter
                    cx.count("fresh_construction_of_null_result_refused");
                }
                Err(e) => board_violation(cx, "C14", format!("panic|rebuild|{}", name), format!("rebuild panicked: {}", e), b, m, ev),
            }
        }
        cx.count("null-move-accepted");
        let mut nt = false;
        if m.ep.is_some() {
            cx.count("null-after-double-push(ep-cleared)");
            nt = true;
        }
        if m.half >= 99 {
            cx.count("null-at-halfmove-99-or-100");
            nt = true;
        }
        if m.full >= 65535 && m.stm == Color::Black {
            cx.count("null-at-fullmove-65535");
            nt = true;
        }
        if !want.pinned().is_empty() {
            cx.count("null-result-has-pins");
            nt = true;
        }
        if ev.kind == EvKind::Null {
            cx.count("two-null-moves-in-a-row");
            nt = true;
        }
        if nt {
            cx.distinct(fnv(write_fen(m, true).as_bytes()));
        }
        cx.sample(|| format!("{} --null--> {}", write_fen(m, true), write_fen(&got, true)));
    }
}

// ------------------------------------------------------------------------------------------ C15

pub struct C15 {
    pub all: Vec<Move>,
    pub panics_per_board: usize,
}

impl C15 {
    pub fn new(panics_per_board: usize) -> C15 {
        C15 { all: all_move_values(), panics_per_board }
    }
}

impl BoardMonitor for C15 {
    fn on_board(&mut self, cx: &mut Cx, b: &Board, m: &RPos, ev: &Ev) {
        let (_, moves, _) = match lib_generate(b) {
            Ok(x) => x,
            Err(_) => return,
        };
        let mut gen = vec![false; 28672];
        for mv in &moves {
            gen[move_index(*mv)] = true;
        }
        let model_legal = m.legal_moves();
        let mut model_set = vec![false; 28672];
        for mv in &model_legal {
            model_set[move_index(mv.lib())] = true;
        }
        let text0 = guard(|| format!("{:#}", b)).unwrap_or_default();
        let mut scratch = b.clone();
        cx.evals(28672);
        for (i, &mv) in self.all.iter().enumerate() {
            let rm = RMove::of(mv);
            // the oracle is the rule book (the reference model's legal set), not the library's own
            // generator: checked play must succeed exactly on the legal moves
            let want_ok = model_set[i];
            if want_ok != gen[i] {
                cx.count("generator-and-model-disagree(see C01)");
            }
            let r = guard(|| scratch.try_play(mv));
            match r {
                Err(e) => {
                    board_violation(cx, "C15", format!("panic|try_play|promotion={}", piece_name(mv.promotion)), format!("try_play({}) panicked: {}", rm.text(), e), b, m, ev);
                    scratch = b.clone();
                }
                Ok(Ok(())) => {
                    if !want_ok {
                        board_violation(
                            cx,
                            "C15",
                            format!("try_play-accepts-illegal|piece={}|promotion={}", piece_name(m.sq[rm.from as usize].map(|x| x.1)), piece_name(mv.promotion)),
                            format!("try_play({}) succeeded but the move is not legal", rm.text()),
                            b,
                            m,
                            ev,
                        );
                    } else {
                        let mut u = b.clone();
                        if guard(|| u.play_unchecked(mv)).is_ok() && u != scratch {
                            board_violation(cx, "C15", "try_play-result-differs-from-play_unchecked".to_string(), format!("try_play({}) result differs from play_unchecked", rm.text()), b, m, ev);
                        }
                        cx.count("try_play_ok");
                        // the panicking variant must accept it too
                        let mut pb = b.clone();
                        if let Err(e) = guard(|| pb.play(mv)) {
                            board_violation(cx, "C15", "play-panics-on-legal".to_string(), format!("play({}) panicked on a legal move: {}", rm.text(), e), b, m, ev);
                        } else if pb != scratch {
                            board_violation(cx, "C15", "play-result-differs".to_string(), format!("play({}) result differs from try_play", rm.text()), b, m, ev);
                        }
                    }
                    scratch = b.clone();
                }
                Ok(Err(_)) => {
                    if want_ok {
                        board_violation(
                            cx,
                            "C15",
                            format!("try_play-rejects-legal|piece={}|{}", piece_name(m.sq[rm.from as usize].map(|x| x.1)), move_kind(m, rm)),
                            format!("try_play({}) failed but the move is legal", rm.text()),
                            b,
                            m,
                            ev,
                        );
                    }
                    if scratch != *b {
                        let t = guard(|| format!("{:#}", scratch)).unwrap_or_default();
                        board_violation(
                            cx,
                            "C15",
                            format!("board-changed-by-failed-try_play|text-changed={}|hash-changed={}", t != text0, scratch.hash() != b.hash()),
                            format!("after the failed try_play({}) the board is no longer equal to the original ('{}' vs '{}')", rm.text(), t, text0),
                            b,
                            m,
                            ev,
                        );
                        scratch = b.clone();
                    }
                }
            }
        }
        // the panicking variant on a sample of illegal moves, near misses first
        let mut sample: Vec<Move> = Vec::new();
        for &mv in &moves {
            // wrong promotion shapes of legal moves
            for p in PROMOS {
                if p != mv.promotion {
                    sample.push(Move { promotion: p, ..mv });
                }
            }
        }
        for pm in m.pseudo_moves() {
            if !model_legal.contains(&pm) {
                sample.push(pm.lib()); // pinned-piece moves, king into attack, ...
            }
        }
        for w in 0..2 {
            if let Some(f) = m.rights[ci(m.stm)][w] {
                if let Some(k) = m.king_sq(m.stm) {
                    let mv = RMove { from: k as u8, to: idx(f as i32, rel_rank(m.stm, 1)) as u8, promo: None };
                    if !model_legal.contains(&mv) {
                        sample.push(mv.lib());
                        cx.count("play-illegal-castling-attempted");
                    }
                }
            }
        }
        while sample.len() < self.panics_per_board {
            sample.push(self.all[cx.rng.usize(28672)]);
        }
        sample.truncate(self.panics_per_board.max(64));
        for mv in sample {
            if gen[move_index(mv)] || model_legal.contains(&RMove::of(mv)) {
                continue;
            }
            cx.eval();
            let mut pb = b.clone();
            match guard(|| pb.play(mv)) {
                Ok(()) => board_violation(
                    cx,
                    "C15",
                    format!("play-does-not-panic-on-illegal|promotion={}", piece_name(mv.promotion)),
                    format!("play({}) returned normally although the move is illegal", RMove::of(mv).text()),
                    b,
                    m,
                    ev,
                ),
                Err(_) => {
                    cx.count("play-panicked-on-illegal");
                    if pb != *b {
                        board_violation(cx, "C15", "board-changed-by-panicking-play".to_string(), format!("play({}) panicked but left the board modified", RMove::of(mv).text()), b, m, ev);
                    }
                }
            }
        }
        if classify(cx, m, &model_legal) {
            cx.distinct(pos_key(m));
        }
        cx.sample(|| format!("{} : 28672 try_play calls ({} legal)", write_fen(m, true), moves.len()));
    }
}

// ------------------------------------------------------------------------------------------ C16

pub struct C16;

fn masks_for(cx: &mut Cx, m: &RPos) -> Vec<(u64, &'static str)> {
    let mut v: Vec<(u64, &'static str)> = vec![(0, "empty"), (!0u64, "full")];
    let mut own = 0u64;
    let mut king = 0u64;
    let mut pawns = 0u64;
    for s in 0..64 {
        if let Some((c, p)) = m.sq[s] {
            if c == m.stm {
                own |= 1 << s;
                if p == Piece::King {
                    king |= 1 << s;
                }
                if p == Piece::Pawn {
                    pawns |= 1 << s;
                }
            }
        }
    }
    v.push((own, "own-pieces"));
    v.push((!own, "all-but-own-pieces"));
    v.push((!king, "all-but-king"));
    v.push((king, "only-king"));
    if m.ep.is_some() {
        // only / all-but the potential EP capturers
        let t = m.ep_target().unwrap();
        let mut caps = 0u64;
        for mv in m.pseudo_moves() {
            if mv.to as usize == t && m.is_ep_capture(mv) {
                caps |= 1 << mv.from;
            }
        }
        if caps != 0 {
            v.push((caps, "only-ep-capturers"));
            v.push((!caps, "all-but-ep-capturers"));
            v.push((pawns & !caps, "pawns-but-ep-capturers"));
            let one = caps & caps.wrapping_neg();
            v.push((one, "one-ep-capturer"));
        }
    }
    let pinned: u64 = m.pinned().iter().fold(0, |a, &s| a | (1u64 << s));
    if pinned & own != 0 {
        v.push((pinned, "only-pinned"));
        v.push((!pinned, "all-but-pinned"));
    }
    // single squares
    for _ in 0..2 {
        v.push((1u64 << cx.rng.below(64), "single-square"));
    }
    if own != 0 {
        let members: Vec<usize> = (0..64).filter(|&s| own >> s & 1 == 1).collect();
        v.push((1u64 << *cx.rng.pick(&members), "single-own-piece"));
    }
    let r = cx.rng.next_u64();
    v.push((r, "random-dense"));
    v.push((!r, "complement-of-random"));
    v.push((cx.rng.sparse(3), "random-sparse"));
    v
}

impl BoardMonitor for C16 {
    fn on_board(&mut self, cx: &mut Cx, b: &Board, m: &RPos, ev: &Ev) {
        let legal = m.legal_moves();
        let mut nontrivial = false;
        // generate_moves == mask FULL
        let full = lib_generate(b);
        for (mask, mname) in masks_for(cx, m) {
            cx.eval();
            let bb = BitBoard(mask);
            let r = guard(|| {
                let mut batches = Vec::new();
                let ret = b.generate_moves_for(bb, |pm| {
                    batches.push(pm);
                    false
                });
                (batches, ret)
            });
            let (batches, ret) = match r {
                Ok(x) => x,
                Err(e) => {
                    board_violation(cx, "C16", format!("panic|generate_moves_for|{}", mname), format!("generate_moves_for({:#x}) panicked: {}", mask, e), b, m, ev);
                    continue;
                }
            };
            if ret {
                board_violation(cx, "C16", "returns-true-without-abort".to_string(), format!("generate_moves_for({:#x}) returned true although the listener never aborted", mask), b, m, ev);
            }
            if batches.len() > 18 {
                board_violation(cx, "C16", "more-than-18-batches".to_string(), format!("{} batches for mask {:#x}", batches.len(), mask), b, m, ev);
            }
            cx.maximum("max_batches_in_one_call", batches.len() as u64);
            let mut got: Vec<RMove> = Vec::new();
            for pm in &batches {
                if pm.is_empty() || pm.to.0 == 0 {
                    board_violation(cx, "C16", format!("empty-batch|{}", piece_name(Some(pm.piece))), format!("an empty batch for {:?} on {} was handed to the listener (mask {:#x})", pm.piece, sq_name(pm.from as usize), mask), b, m, ev);
                }
                for mv in *pm {
                    got.push(RMove::of(mv));
                }
            }
            got.sort();
            let mut want: Vec<RMove> = legal.iter().copied().filter(|mv| mask >> mv.from & 1 == 1).collect();
            want.sort();
            if got != want {
                let extra: Vec<String> = got.iter().filter(|g| !want.contains(g)).map(|g| g.text()).collect();
                let missing: Vec<String> = want.iter().filter(|g| !got.contains(g)).map(|g| g.text()).collect();
                let outside = got.iter().any(|g| mask >> g.from & 1 == 0);
                let ep_involved = got.iter().chain(want.iter()).any(|g| m.is_ep_capture(*g) && (extra.contains(&g.text()) || missing.contains(&g.text())));
                board_violation(
                    cx,
                    "C16",
                    format!(
                        "masked-set|{}|extra={}|missing={}|origin-outside-mask={}|ep={}",
                        mname,
                        !extra.is_empty(),
                        !missing.is_empty(),
                        outside,
                        ep_involved
                    ),
                    format!("mask {:#x} ({}): extra [{}], missing [{}]", mask, mname, extra.join(" "), missing.join(" ")),
                    b,
                    m,
                    ev,
                );
            }
            if mname == "full" {
                if let Ok((fb, _, fret)) = &full {
                    if *fb != batches || *fret != ret {
                        board_violation(cx, "C16", "generate_moves-differs-from-full-mask".to_string(), "generate_moves and generate_moves_for(FULL) deliver different batches".to_string(), b, m, ev);
                    }
                }
            }
            // abort contract: abort at every possible point
            for k in 0..batches.len() {
                cx.eval();
                let r = guard(|| {
                    let mut calls = 0usize;
                    let ret = b.generate_moves_for(bb, |_| {
                        calls += 1;
                        calls == k + 1
                    });
                    (calls, ret)
                });
                match r {
                    Ok((calls, ret)) => {
                        if calls != k + 1 || !ret {
                            board_violation(
                                cx,
                                "C16",
                                format!("abort-contract|calls-after-abort={}|returned={}", calls > k + 1, ret),
                                format!("listener aborted on call {} of {}: it was called {} times and the function returned {} (mask {:#x})", k + 1, batches.len(), calls, ret, mask),
                                b,
                                m,
                                ev,
                            );
                        }
                    }
                    Err(e) => board_violation(cx, "C16", "panic|abort".to_string(), format!("panicked: {}", e), b, m, ev),
                }
            }
            cx.count_n("abort_points_exercised", batches.len() as u64);
            match mname {
                "only-ep-capturers" | "all-but-ep-capturers" | "pawns-but-ep-capturers" | "one-ep-capturer" => {
                    cx.count("mask-cuts-ep-capturers");
                    nontrivial = true;
                }
                "only-pinned" | "all-but-pinned" => {
                    cx.count("mask-cuts-pinned-piece");
                    nontrivial = true;
                }
                "all-but-king" | "only-king" => cx.count("mask-cuts-king"),
                _ => {}
            }
        }
        // generate_moves with abort on the first call
        if !legal.is_empty() {
            if let Ok((calls, ret)) = guard(|| {
                let mut calls = 0;
                let ret = b.generate_moves(|_| {
                    calls += 1;
                    true
                });
                (calls, ret)
            }) {
                if calls != 1 || !ret {
                    board_violation(cx, "C16", "abort-contract|generate_moves".to_string(), format!("generate_moves with an aborting listener: {} calls, returned {}", calls, ret), b, m, ev);
                }
            }
        }
        if nontrivial || m.checkers().len() > 0 {
            cx.distinct(pos_key(m));
        }
        cx.sample(|| format!("{} : masks and every abort point", write_fen(m, true)));
    }
}
