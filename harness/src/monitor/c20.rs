//! C20 — SAN and UCI helpers are canonical, mutually inverse and legality-preserving.

use super::*;
use crate::refmodel::fen::write_fen;
use crate::refmodel::san::*;
use crate::workload::text::*;
use cozy_chess::util::*;

pub struct C20 {
    pub strings_per_board: usize,
}

const SAN_ALPHABET: &[char] = &[
    'K', 'Q', 'R', 'B', 'N', 'P', 'a', 'b', 'c', 'd', 'e', 'f', 'g', 'h', '1', '2', '3', '4', '5', '6', '7', '8', 'x', '=', '+', '#', 'O', '-', '0', 'o', 'k', 'q', 'n', 'r',
];

fn san_violation(cx: &mut Cx, sig: String, what: String, b: &Board, m: &RPos, ev: &Ev, text: &str) {
    let witness = format!("board='{}' text={:?} {}", write_fen(m, true), text, ev.hist.describe());
    let mut argv = vec!["san".to_string(), crate::hex(&write_fen(m, true)), crate::hex(text)];
    argv.push(ev.hist.route.to_string());
    let _ = b;
    cx.violation(format!("C20|{}", sig), what, witness, argv);
}

/// The reader on one arbitrary string.
pub fn reader_one(cx: &mut Cx, b: &Board, m: &RPos, legal: &[RMove], text: &str, ev: &Ev) {
    cx.eval();
    let r = match guard(|| parse_san_move(b, text)) {
        Ok(r) => r,
        Err(e) => {
            san_violation(cx, "panic|parse_san_move".to_string(), format!("parse_san_move({:?}) panicked: {}", text, e), b, m, ev, text);
            return;
        }
    };
    let mv = match r {
        Ok(mv) => RMove::of(mv),
        Err(_) => {
            cx.count("reader:rejected");
            return;
        }
    };
    cx.count("reader:accepted");
    if !legal.contains(&mv) {
        san_violation(cx, "reader-returns-illegal-move".to_string(), format!("parse_san_move({:?}) = {} which is not a legal move", text, mv.text()), b, m, ev, text);
        return;
    }
    let parts = match san_parts(text) {
        Some(p) => p,
        None => {
            san_violation(cx, "reader-accepts-text-outside-grammar".to_string(), format!("parse_san_move({:?}) = {} but the text is not SAN", text, mv.text()), b, m, ev, text);
            return;
        }
    };
    // castling written as a king move to the rook's square (library encoding) is tolerated
    let matches = |cand: RMove| -> bool { parts_match(m, cand, &parts) || (m.is_castle(cand) && parts.castle.is_none() && parts.piece == Some(Piece::King) && parts.to == Some(cand.to) && parts.promo.is_none() && parts.from_file.map_or(true, |f| f == cand.from % 8) && parts.from_rank.map_or(true, |r| r == cand.from / 8)) };
    if !matches(mv) {
        let which = if parts.castle.is_some() {
            "castle-wing"
        } else if parts.piece.unwrap_or(Piece::Pawn) != m.sq[mv.from as usize].map(|x| x.1).unwrap_or(Piece::Pawn) {
            "piece-letter"
        } else if parts.to != Some(mv.to) {
            "destination"
        } else if parts.promo != mv.promo {
            "promotion"
        } else {
            "origin"
        };
        san_violation(cx, format!("reader-contradicts-written-component|{}", which), format!("parse_san_move({:?}) = {} which contradicts the written {}", text, mv.text(), which), b, m, ev, text);
        return;
    }
    let fitting: Vec<RMove> = legal.iter().copied().filter(|&c| matches(c)).collect();
    if fitting.len() > 1 {
        san_violation(
            cx,
            "reader-accepts-ambiguous-text".to_string(),
            format!("parse_san_move({:?}) = {} although {} legal moves fit the text: {}", text, mv.text(), fitting.len(), fitting.iter().map(|x| x.text()).collect::<Vec<_>>().join(" ")),
            b,
            m,
            ev,
            text,
        );
    }
    // lenient acceptances: counted, not violations (see DESIGN C20)
    if parts.capture_mark != m.is_capture(mv) {
        cx.count("reader:lenient-capture-mark-accepted");
    }
    if m.is_castle(mv) && parts.castle.is_none() {
        cx.count("reader:castle-written-as-king-to-rook");
    }
    if let Some(sfx) = parts.suffix {
        let after = m.make(mv);
        let chk = after.in_check(after.stm);
        let mate = chk && after.legal_moves().is_empty();
        let truthful = (sfx == '#' && mate) || (sfx == '+' && chk && !mate);
        if !truthful {
            cx.count("reader:lenient-check-suffix-accepted");
        }
    }
}

impl BoardMonitor for C20 {
    fn on_board(&mut self, cx: &mut Cx, b: &Board, m: &RPos, ev: &Ev) {
        let legal = m.legal_moves();
        let orthodox = m.orthodox_rights();
        let mut texts: Vec<String> = Vec::with_capacity(legal.len());
        let mut nontrivial = false;
        for &mv in &legal {
            cx.eval();
            let want = san(m, mv, &legal);
            match guard(|| display_san_move(b, mv.lib()).to_string()) {
                Ok(got) => {
                    if got != want {
                        let pc = m.sq[mv.from as usize].map(|x| x.1);
                        let class = if got.trim_end_matches(['+', '#']) == want.trim_end_matches(['+', '#']) {
                            "check-suffix"
                        } else if got.replace('x', "") == want.replace('x', "") {
                            "capture-mark"
                        } else if m.is_castle(mv) {
                            "castling"
                        } else if mv.promo.is_some() {
                            "promotion"
                        } else {
                            "disambiguation-or-piece"
                        };
                        san_violation(
                            cx,
                            format!("writer-not-canonical|{}|{}", class, piece_name(pc)),
                            format!("display_san_move({}) = {:?} but canonical SAN is {:?}", mv.text(), got, want),
                            b,
                            m,
                            ev,
                            &got,
                        );
                    }
                    match guard(|| parse_san_move(b, &got)) {
                        Ok(Ok(back)) => {
                            if RMove::of(back) != mv {
                                san_violation(cx, "round-trip-wrong-move".to_string(), format!("parse_san_move(display_san_move({})) = {}", mv.text(), RMove::of(back).text()), b, m, ev, &got);
                            }
                        }
                        Ok(Err(_)) => san_violation(
                            cx,
                            format!("round-trip-rejected|{}", move_kind(m, mv)),
                            format!("parse_san_move rejects the writer's own text {:?} for {}", got, mv.text()),
                            b,
                            m,
                            ev,
                            &got,
                        ),
                        Err(e) => san_violation(cx, "panic|parse_san_move".to_string(), format!("panicked: {}", e), b, m, ev, &got),
                    }
                    texts.push(got);
                }
                Err(e) => san_violation(cx, format!("panic|display_san_move|{}", move_kind(m, mv)), format!("display_san_move({}) panicked: {}", mv.text(), e), b, m, ev, &mv.text()),
            }
            // classes
            let w = &want;
            let body: &str = w.trim_end_matches(['+', '#']);
            if w.ends_with('#') {
                cx.count("writer:mate-suffix");
                nontrivial = true;
            } else if w.ends_with('+') {
                cx.count("writer:check-suffix");
            }
            if m.is_castle(mv) {
                cx.count("writer:castling");
                nontrivial = true;
                if w.len() > body.len() {
                    cx.count("writer:castling-with-check");
                }
            } else if m.sq[mv.from as usize].map(|x| x.1) != Some(Piece::Pawn) {
                let core: Vec<char> = body.chars().filter(|&c| c != 'x').collect();
                match core.len() {
                    4 => {
                        nontrivial = true;
                        if core[1].is_ascii_digit() {
                            cx.count("writer:rank-disambiguation");
                        } else {
                            cx.count("writer:file-disambiguation");
                        }
                    }
                    5 => {
                        nontrivial = true;
                        cx.count("writer:file+rank-disambiguation");
                    }
                    _ => {}
                }
            } else if m.is_ep_capture(mv) {
                cx.count("writer:en-passant");
                nontrivial = true;
            } else if mv.promo.is_some() {
                cx.count("writer:promotion");
                nontrivial = true;
            }
            // UCI pair
            if orthodox {
                cx.eval();
                let want_u = uci(m, mv);
                match guard(|| display_uci_move(b, mv.lib()).to_string()) {
                    Ok(got) => {
                        if got != want_u {
                            san_violation(cx, format!("uci-writer|{}", move_kind(m, mv)), format!("display_uci_move({}) = {:?}, standard UCI is {:?}", mv.text(), got, want_u), b, m, ev, &got);
                        }
                        match guard(|| parse_uci_move(b, &got)) {
                            Ok(Ok(back)) => {
                                if RMove::of(back) != mv {
                                    san_violation(cx, format!("uci-round-trip|{}", move_kind(m, mv)), format!("parse_uci_move({:?}) = {} for move {}", got, RMove::of(back).text(), mv.text()), b, m, ev, &got);
                                }
                            }
                            Ok(Err(_)) => san_violation(cx, "uci-round-trip-rejected".to_string(), format!("parse_uci_move rejects {:?}", got), b, m, ev, &got),
                            Err(e) => san_violation(cx, "panic|parse_uci_move".to_string(), format!("panicked: {}", e), b, m, ev, &got),
                        }
                        // and from the standard text directly
                        match guard(|| parse_uci_move(b, &want_u)) {
                            Ok(Ok(back)) if RMove::of(back) == mv => {}
                            Ok(_) => san_violation(cx, format!("uci-reader|{}", move_kind(m, mv)), format!("parse_uci_move({:?}) does not give {}", want_u, mv.text()), b, m, ev, &want_u),
                            Err(e) => san_violation(cx, "panic|parse_uci_move".to_string(), format!("panicked: {}", e), b, m, ev, &want_u),
                        }
                    }
                    Err(e) => san_violation(cx, "panic|display_uci_move".to_string(), format!("panicked: {}", e), b, m, ev, &mv.text()),
                }
                if m.is_castle(mv) {
                    cx.count("uci:castling");
                }
                cx.count("uci:moves");
            }
        }
        if orthodox && (m.rights[0] != [None, None] || m.rights[1] != [None, None]) {
            cx.count("uci:boards-with-orthodox-rights");
        }
        // the reader on mutated and random strings
        for i in 0..self.strings_per_board {
            let s = if !texts.is_empty() && i % 4 != 3 {
                let base = cx.rng.pick(&texts).clone();
                match cx.rng.below(9) {
                    8 => alias_substitution(&mut cx.rng, &base),
                    0 => base,
                    1 => {
                        // drop disambiguators / capture mark / suffix
                        let mut cs: Vec<char> = base.chars().collect();
                        let k = cx.rng.usize(cs.len());
                        cs.remove(k);
                        cs.into_iter().collect()
                    }
                    2 => {
                        // add an origin file / rank after the piece letter
                        let mut cs: Vec<char> = base.chars().collect();
                        let c = *cx.rng.pick(&['a', 'b', 'c', 'd', 'e', 'f', 'g', 'h', '1', '2', '3', '4', '5', '6', '7', '8']);
                        let pos = if cs.first().map_or(false, |c| c.is_ascii_uppercase()) { 1 } else { 0 };
                        cs.insert(pos.min(cs.len()), c);
                        cs.into_iter().collect()
                    }
                    3 => {
                        // another piece letter
                        let mut cs: Vec<char> = base.chars().collect();
                        let l = *cx.rng.pick(&['K', 'Q', 'R', 'B', 'N', 'P']);
                        if cs.first().map_or(false, |c| c.is_ascii_uppercase() && *c != 'O') {
                            cs[0] = l;
                        } else {
                            cs.insert(0, l);
                        }
                        cs.into_iter().collect()
                    }
                    4 => base.replace('O', "0"),
                    5 => format!("{}{}", base.trim_end_matches(['+', '#']), cx.rng.pick(&["+", "#", "=Q", "=K", "Q", "++", "!"])),
                    6 => {
                        // to-square only, or piece + to-square
                        let lm = *cx.rng.pick(&legal);
                        let pcs = m.sq[lm.from as usize].map(|x| x.1).unwrap_or(Piece::Pawn);
                        let l = piece_letter(pcs).to_ascii_uppercase();
                        match cx.rng.below(5) {
                            0 => sq_name(lm.to as usize),
                            1 => format!("{}{}", l, sq_name(lm.to as usize)),
                            2 => format!("{}{}{}", l, sq_name(lm.from as usize), sq_name(lm.to as usize)),
                            3 => {
                                // fully specified origin with a WRONG piece letter
                                let wrong = *cx.rng.pick(&['K', 'Q', 'R', 'B', 'N']);
                                let x = if m.is_capture(lm) && cx.rng.chance(1, 2) { "x" } else { "" };
                                let promo = match lm.promo {
                                    Some(pp) => format!("={}", piece_letter(pp).to_ascii_uppercase()),
                                    None => String::new(),
                                };
                                format!("{}{}{}{}{}", wrong, sq_name(lm.from as usize), x, sq_name(lm.to as usize), promo)
                            }
                            _ => {
                                // origin file or rank only, with a random piece letter
                                let letter = *cx.rng.pick(&['K', 'Q', 'R', 'B', 'N', 'P']);
                                let o = sq_name(lm.from as usize);
                                let part = if cx.rng.chance(1, 2) { &o[0..1] } else { &o[1..2] };
                                format!("{}{}{}", letter, part, sq_name(lm.to as usize))
                            }
                        }
                    }
                    _ => mutate(&mut cx.rng, &base, SAN_ALPHABET),
                }
            } else if i % 8 == 3 {
                random_unicode(&mut cx.rng, 7)
            } else {
                random_string(&mut cx.rng, SAN_ALPHABET, 7)
            };
            reader_one(cx, b, m, &legal, &s, ev);
        }
        if nontrivial {
            cx.distinct(pos_key(m));
        }
        cx.sample(|| format!("{} : {}", write_fen(m, true), texts.iter().take(12).cloned().collect::<Vec<_>>().join(" ")));
    }
}
