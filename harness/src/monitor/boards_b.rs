//! Board-level monitors C06 C07 C09 C10 C13 (entry routes, text, builder, hash, position identity).

use super::boards_a::route_bit;
use super::*;
use crate::refmodel::fen::{write_fen, write_placement};
use crate::workload::gen;
use cozy_chess::{BoardBuilderError, CastleRights, Color, FenParseError};
use std::collections::hash_map::DefaultHasher;
use std::hash::{Hash, Hasher};

fn std_hash(b: &Board) -> u64 {
    let mut h = DefaultHasher::new();
    Hash::hash(b, &mut h);
    h.finish()
}

// ------------------------------------------------------------------------------------------ C06

pub struct C06;

/// Soundness of a board the library has handed out.
pub fn c06_soundness(cx: &mut Cx, b: &Board, m: &RPos, ev: &Ev, route: &str) {
    cx.eval();
    if let Err(clause) = m.structurally_sound() {
        board_violation(
            cx,
            "C06",
            format!("unsound-board-handed-out|{}", clause),
            format!("the library handed out (route {}) a board that violates the clause '{}'", route, clause),
            b,
            m,
            ev,
        );
    }
}

impl BoardMonitor for C06 {
    fn on_board(&mut self, cx: &mut Cx, b: &Board, m: &RPos, ev: &Ev) {
        c06_soundness(cx, b, m, ev, ev.hist.route);
        // a move the *library* calls legal but the rules do not: if playing it (checked play) hands out
        // an unsound board, that is a C06 matter too (normally this set is empty)
        if let Ok((_, moves, _)) = lib_generate(b) {
            let legal = m.legal_moves();
            for mv in moves {
                if !legal.contains(&RMove::of(mv)) {
                    cx.count("library-legal-moves-rejected-by-the-model(played)");
                    let mut nb = b.clone();
                    if let Ok(Ok(())) = guard(|| nb.try_play(mv)) {
                        let nm = RPos::observe(&nb);
                        if let Err(clause) = nm.structurally_sound() {
                            board_violation(
                                cx,
                                "C06",
                                format!("unsound-board-handed-out|{}|after-library-legal-move", clause),
                                format!("try_play({}) succeeded and handed out a board that violates '{}'", RMove::of(mv).text(), clause),
                                b,
                                m,
                                ev,
                            );
                        }
                    }
                }
            }
        }
        match ev.kind {
            EvKind::Root => cx.count("sound-checked:roots"),
            EvKind::Play => cx.count("sound-checked:after-play"),
            EvKind::Null => cx.count("sound-checked:after-null"),
        }
        // acceptance: positions reached by legal play from the (double) Chess960 starts
        let reachable = (ev.source == "start960" || ev.source == "dfrc" || ev.source == "start960-tree") && ev.hist.route != "setters" && !ev.hist.moves.iter().any(|x| x == "null");
        if reachable {
            cx.count("acceptance:positions-re-entered");
            if ev.source == "dfrc" {
                cx.count("acceptance:from-dfrc-start");
            }
            let s = write_fen(m, true);
            let mut routes: Vec<(&str, Result<Result<Board, String>, String>)> = Vec::new();
            routes.push(("from_fen(shredder)", guard(|| Board::from_fen(&s, true).map_err(|e| format!("{:?}", e)))));
            routes.push(("FromStr(shredder text)", guard(|| s.parse::<Board>().map_err(|e| format!("{:?}", e)))));
            if m.plain_fen_rights() {
                let t = write_fen(m, false);
                routes.push(("from_fen(plain)", guard(|| Board::from_fen(&t, false).map_err(|e| format!("{:?}", e)))));
                routes.push(("FromStr(plain text)", guard(|| t.parse::<Board>().map_err(|e| format!("{:?}", e)))));
            }
            let bd = to_builder(m);
            routes.push(("builder", guard(|| bd.build().map_err(|e| format!("{:?}", e)))));
            for (name, r) in routes {
                cx.eval();
                match r {
                    Ok(Ok(nb)) => {
                        if nb != *b {
                            board_violation(cx, "C06", format!("re-entered-board-differs|{}", name), format!("the position re-entered through {} is not equal to the played board", name), b, m, ev);
                        }
                    }
                    Ok(Err(e)) => board_violation(
                        cx,
                        "C06",
                        format!("reachable-position-rejected|{}|{}|ep={}|checkers={}", name, e, m.ep.is_some(), m.checkers().len()),
                        format!("a position reached by legal play from a Chess960 start was rejected by {} with {}", name, e),
                        b,
                        m,
                        ev,
                    ),
                    Err(e) => board_violation(cx, "C06", format!("panic|{}", name), format!("{} panicked: {}", name, e), b, m, ev),
                }
            }
            if m.ep.is_some() {
                cx.count("acceptance:with-ep-file");
                if !m.checkers().is_empty() {
                    cx.count("acceptance:with-ep-file-in-check");
                }
            }
            if m.checkers().len() == 2 {
                cx.count("acceptance:in-double-check");
            }
            cx.distinct(fnv(s.as_bytes()));
        }
        cx.sample(|| format!("{} sound; {}", write_fen(m, true), ev.hist.describe()));
    }
}

/// One defect per clause applied to a sound position. Returns (edited position, clause name) when
/// the edit could be applied.
pub fn apply_defect(rng: &mut crate::rng::Rng, base: &RPos, which: usize) -> Option<(RPos, &'static str)> {
    let mut p = base.clone();
    let us = p.stm;
    let them = other(us);
    let empty: Vec<usize> = (0..64).filter(|&s| p.sq[s].is_none()).collect();
    if empty.is_empty() {
        return None;
    }
    let inner: Vec<usize> = empty.iter().copied().filter(|&s| (8..56).contains(&s)).collect();
    let name: &'static str = match which {
        0 => {
            let s = *rng.pick(&empty);
            p.sq[s] = Some((if rng.chance(1, 2) { us } else { them }, Piece::King));
            "kings-per-side"
        }
        1 => {
            let c = if rng.chance(1, 2) { us } else { them };
            let k = p.king_sq(c)?;
            p.sq[k] = if rng.chance(1, 2) { None } else { Some((c, Piece::Queen)) };
            "kings-per-side"
        }
        2 => {
            // move the black king next to the white king
            let wk = p.king_sq(Color::White)?;
            let bk = p.king_sq(Color::Black)?;
            let (wf, wr) = fr(wk);
            let &(df, dr) = rng.pick(&KING_D);
            if !on(wf + df, wr + dr) {
                return None;
            }
            let t = idx(wf + df, wr + dr);
            if p.sq[t].is_some() {
                return None;
            }
            p.sq[bk] = None;
            p.sq[t] = Some((Color::Black, Piece::King));
            p.rights[1] = [None, None];
            "kings-adjacent"
        }
        3 => {
            // 17th piece
            let c = if rng.chance(1, 2) { us } else { them };
            let mut n = (0..64).filter(|&s| matches!(p.sq[s], Some((cc, _)) if cc == c)).count();
            let mut free = inner.clone();
            rng.shuffle(&mut free);
            for s in free {
                if n >= 17 {
                    break;
                }
                p.sq[s] = Some((c, Piece::Knight));
                n += 1;
            }
            if n < 17 {
                return None;
            }
            "more-than-16-pieces"
        }
        4 => {
            let c = if rng.chance(1, 2) { us } else { them };
            let mut n = p.count(c, Piece::Pawn);
            let total = (0..64).filter(|&s| matches!(p.sq[s], Some((cc, _)) if cc == c)).count();
            if total + (9 - n.min(9)) > 16 {
                return None;
            }
            let mut free = inner.clone();
            rng.shuffle(&mut free);
            for s in free {
                if n >= 9 {
                    break;
                }
                p.sq[s] = Some((c, Piece::Pawn));
                n += 1;
            }
            if n < 9 {
                return None;
            }
            "more-than-8-pawns"
        }
        5 => {
            let back: Vec<usize> = empty.iter().copied().filter(|&s| s < 8 || s >= 56).collect();
            if back.is_empty() {
                return None;
            }
            let c = if rng.chance(1, 2) { us } else { them };
            if p.count(c, Piece::Pawn) >= 8 {
                return None;
            }
            p.sq[*rng.pick(&back)] = Some((c, Piece::Pawn));
            "pawn-on-back-rank"
        }
        6 => {
            // put the side not to move in check by a piece of the mover
            let k = p.king_sq(them)?;
            let (kf, kr) = fr(k);
            let kind = *rng.pick(&[Piece::Knight, Piece::Rook, Piece::Bishop, Piece::Queen, Piece::Pawn]);
            let s = match kind {
                Piece::Knight => {
                    let &(df, dr) = rng.pick(&KNIGHT_D);
                    if !on(kf + df, kr + dr) {
                        return None;
                    }
                    idx(kf + df, kr + dr)
                }
                Piece::Pawn => {
                    // a pawn of `us` attacks forward (seen from us)
                    let df = if rng.chance(1, 2) { 1 } else { -1 };
                    let r = kr - fwd(us);
                    if !on(kf + df, r) || r == 0 || r == 7 {
                        return None;
                    }
                    idx(kf + df, r)
                }
                _ => {
                    let dirs: &[(i32, i32)] = if kind == Piece::Rook { &ROOK_D } else if kind == Piece::Bishop { &BISHOP_D } else { &KING_D };
                    let &(df, dr) = rng.pick(dirs);
                    if !on(kf + df, kr + dr) {
                        return None;
                    }
                    idx(kf + df, kr + dr)
                }
            };
            if p.sq[s].is_some() {
                return None;
            }
            p.sq[s] = Some((us, kind));
            "side-not-to-move-in-check"
        }
        7 => {
            // right without rook: named file holds nothing / an enemy rook / a knight
            let c = if rng.chance(1, 2) { us } else { them };
            let k = p.king_sq(c)?;
            let (kf, kr) = fr(k);
            let br = rel_rank(c, 1);
            if kr != br {
                return None;
            }
            let w = rng.usize(2);
            let files: Vec<i32> = if w == 0 { (kf + 1..8).collect() } else { (0..kf).collect() };
            let files: Vec<i32> = files.into_iter().filter(|&f| p.sq[idx(f, br)] != Some((c, Piece::Rook))).collect();
            if files.is_empty() {
                return None;
            }
            let f = *rng.pick(&files);
            if p.sq[idx(f, br)].is_none() && rng.chance(1, 2) && p.structurally_sound().is_ok() {
                // enemy rook there (only if that does not disturb anything else)
                let mut q = p.clone();
                q.sq[idx(f, br)] = Some((other(c), Piece::Rook));
                q.rights[ci(c)][w] = Some(f as u8);
                if matches!(q.structurally_sound(), Err("right-without-own-rook")) {
                    return Some((q, "right-without-own-rook"));
                }
            }
            // sometimes an own rook stands on the named file, but not on the back rank
            if rng.chance(1, 3) {
                let rr = br + fwd(c) * rng.range(1, 6) as i32;
                if on(f, rr) && p.sq[idx(f, rr)].is_none() {
                    let mut q = p.clone();
                    q.sq[idx(f, rr)] = Some((c, Piece::Rook));
                    q.rights[ci(c)][w] = Some(f as u8);
                    if matches!(q.structurally_sound(), Err("right-without-own-rook")) {
                        return Some((q, "right-without-own-rook"));
                    }
                }
            }
            p.rights[ci(c)][w] = Some(f as u8);
            "right-without-own-rook"
        }
        8 => {
            // king off its back rank but a rook on the named file of the back rank
            let c = if rng.chance(1, 2) { us } else { them };
            let k = p.king_sq(c)?;
            let (_, kr) = fr(k);
            let br = rel_rank(c, 1);
            if kr == br {
                return None;
            }
            let rooks: Vec<i32> = (0..8).filter(|&f| p.sq[idx(f, br)] == Some((c, Piece::Rook))).collect();
            let f = if rooks.is_empty() {
                let free: Vec<i32> = (0..8).filter(|&f| p.sq[idx(f, br)].is_none()).collect();
                if free.is_empty() {
                    return None;
                }
                let f = *rng.pick(&free);
                p.sq[idx(f, br)] = Some((c, Piece::Rook));
                f
            } else {
                *rng.pick(&rooks)
            };
            p.rights[ci(c)][rng.usize(2)] = Some(f as u8);
            "right-king-off-back-rank"
        }
        9 => {
            // rook on the wrong side of the king for the wing
            let c = if rng.chance(1, 2) { us } else { them };
            let k = p.king_sq(c)?;
            let (kf, kr) = fr(k);
            let br = rel_rank(c, 1);
            if kr != br {
                return None;
            }
            let w = rng.usize(2);
            if p.rights[ci(c)][w].is_some() {
                return None;
            }
            // wrong side: short wing with a rook on a lower file, long wing with a higher file
            let files: Vec<i32> = if w == 0 { (0..kf).collect() } else { (kf + 1..8).collect() };
            let files: Vec<i32> = files.into_iter().filter(|&f| p.sq[idx(f, br)] == Some((c, Piece::Rook))).collect();
            if files.is_empty() {
                return None;
            }
            p.rights[ci(c)][w] = Some(*rng.pick(&files) as u8);
            "right-on-wrong-side"
        }
        10 => {
            // EP file with no pawn that could have advanced
            if p.ep.is_some() {
                return None;
            }
            let files: Vec<u8> = (0..8u8).filter(|&f| p.sq[idx(f as i32, rel_rank(them, 4))] != Some((them, Piece::Pawn))).collect();
            if files.is_empty() {
                return None;
            }
            let f = *rng.pick(&files);
            // sometimes something else stands where the pushed pawn should be: a pawn of the mover,
            // or an enemy piece that is not a pawn
            let sq = idx(f as i32, rel_rank(them, 4));
            if p.sq[sq].is_none() && p.sq[idx(f as i32, rel_rank(them, 3))].is_none() && p.sq[idx(f as i32, rel_rank(them, 2))].is_none() && rng.chance(1, 2) {
                let mut q = p.clone();
                q.sq[sq] = Some(if rng.chance(1, 2) { (us, Piece::Pawn) } else { (them, *rng.pick(&[Piece::Knight, Piece::Bishop, Piece::Rook, Piece::Queen])) });
                q.ep = Some(f);
                if matches!(q.structurally_sound(), Err("ep-without-pawn")) {
                    return Some((q, "ep-without-pawn"));
                }
            }
            p.ep = Some(f);
            "ep-without-pawn"
        }
        11 => {
            // EP pawn present but the passed or the origin square is occupied
            if p.ep.is_some() {
                return None;
            }
            let files: Vec<u8> = (0..8u8).filter(|&f| p.sq[idx(f as i32, rel_rank(them, 4))] == Some((them, Piece::Pawn))).collect();
            if files.is_empty() {
                return None;
            }
            let f = *rng.pick(&files);
            let passed = idx(f as i32, rel_rank(them, 3));
            let origin = idx(f as i32, rel_rank(them, 2));
            p.ep = Some(f);
            match (p.sq[passed].is_some(), p.sq[origin].is_some()) {
                (true, _) => "ep-passed-square-occupied",
                (false, true) => "ep-origin-occupied",
                (false, false) => {
                    if rng.chance(1, 2) {
                        p.sq[passed] = Some((us, Piece::Knight));
                        "ep-passed-square-occupied"
                    } else {
                        p.sq[origin] = Some((them, Piece::Knight));
                        "ep-origin-occupied"
                    }
                }
            }
        }
        12 => {
            p.half = 101 + rng.below(155) as u32;
            "halfmove-out-of-range"
        }
        14 => {
            // a double push that has just discovered a check (sound so far), then the passed or the
            // origin square is occupied: the EP clause must be judged whatever the checkers are
            let (pre, from, to) = gen::ep_discovery_case(rng)?;
            let mv = RMove { from: from as u8, to: to as u8, promo: None };
            if !pre.legal_moves().contains(&mv) {
                return None;
            }
            let mut q = pre.make(mv);
            if q.structurally_sound().is_err() {
                return None;
            }
            let (ff, _) = fr(from);
            let pusher = other(q.stm);
            let passed = idx(ff, rel_rank(pusher, 3));
            q.sq[passed] = Some((if rng.chance(1, 2) { q.stm } else { pusher }, *rng.pick(&[Piece::Knight, Piece::Bishop])));
            return Some((q, "ep-passed-square-occupied"));
        }
        _ => {
            p.full = 0;
            "fullmove-out-of-range"
        }
    };
    Some((p, name))
}

pub const N_DEFECTS: usize = 15;

/// Submit a candidate through every entry route; each accepted board must be sound.
pub fn c06_submit_all_routes(cx: &mut Cx, p: &RPos, label: &'static str, expect_reject: Option<&'static str>) {
    let s = write_fen(p, true);
    let t = write_fen(p, false);
    let bd = to_builder(p);
    let builder_expressible = p.half <= 255 && p.full <= 65535;
    let mut routes: Vec<(&'static str, Result<Option<Board>, String>)> = vec![
        ("from_fen(shredder)", guard(|| Board::from_fen(&s, true).ok())),
        ("FromStr(shredder)", guard(|| s.parse::<Board>().ok())),
        ("from_fen(plain)", guard(|| Board::from_fen(&t, false).ok())),
        ("FromStr(plain)", guard(|| t.parse::<Board>().ok())),
    ];
    if builder_expressible {
        routes.push(("builder", guard(|| bd.build().ok())));
    }
    for (name, r) in routes {
        cx.eval();
        match r {
            Ok(Some(b)) => {
                cx.count("candidates_accepted");
                let m = RPos::observe(&b);
                let hist = Hist { route: "builder", root: s.clone(), moves: vec![] };
                let ev = Ev { kind: EvKind::Root, prev: None, mv: None, hist: &hist, source: label };
                if let Err(clause) = m.structurally_sound() {
                    board_violation(
                        cx,
                        "C06",
                        format!("unsound-board-handed-out|{}", clause),
                        format!("candidate '{}' ({}) was accepted by {} but violates '{}'", s, label, name, clause),
                        &b,
                        &m,
                        &ev,
                    );
                }
                if let Some(clause) = expect_reject {
                    // plain-FEN text of a non-a/h right denotes another position; only judge
                    // what was really denoted (the observed board), which was done above
                    let _ = clause;
                }
            }
            Ok(None) => {
                cx.count("candidates_rejected");
                if let Some(clause) = expect_reject {
                    cx.count_dyn(format!("defect-rejected:{}", clause));
                }
            }
            Err(e) => {
                cx.violation(
                    format!("C06|panic|{}", name),
                    format!("{} panicked: {}", name, e),
                    format!("candidate '{}'", s),
                    vec!["fen".to_string(), "C06".to_string(), crate::hex(&s)],
                );
            }
        }
    }
    if let Some(clause) = expect_reject {
        cx.count_dyn(format!("defect-submitted:{}", clause));
    }
}

pub fn c06_defect_loop(cx: &mut Cx, budget: u64) {
    let mut done = 0;
    let mut tries = 0;
    while done < budget && tries < budget * 20 {
        tries += 1;
        let base = gen::sound_random(&mut cx.rng);
        let which = cx.rng.usize(N_DEFECTS);
        if let Some((p, clause)) = apply_defect(&mut cx.rng, &base, which) {
            // the model must agree that exactly this kind of defect is present
            match p.structurally_sound() {
                Err(c) if c == clause => {}
                _ => {
                    cx.count("defect-edit-not-isolated(skipped)");
                    continue;
                }
            }
            c06_submit_all_routes(cx, &p, "single-defect", Some(clause));
            cx.distinct(fnv(write_fen(&p, true).as_bytes()));
            done += 1;
            if done % 97 == 0 {
                cx.sample(|| format!("defect '{}' in '{}'", clause, write_fen(&p, true)));
            }
        }
    }
    // pure scatter through all routes
    for _ in 0..budget {
        let p = gen::scatter(&mut cx.rng);
        c06_submit_all_routes(cx, &p, "scatter", None);
    }
}

/// DFRC constructor: white half of start(w), black half of start(b); rights on the rook files.
pub fn c06_start_constructors(cx: &mut Cx, pairs: u64, all_pairs: bool) {
    let singles: Vec<Option<RPos>> = (0..960).map(|n| guard(|| Board::chess960_startpos(n)).ok().map(|b| RPos::observe(&b))).collect();
    for (n, s) in singles.iter().enumerate() {
        cx.eval();
        match s {
            None => cx.violation(format!("C06|panic|chess960_startpos"), format!("chess960_startpos({}) panicked", n), String::new(), vec!["none".into()]),
            Some(p) => {
                let mut ok = p.structurally_sound().is_ok();
                // bishops on opposite colours, king between rooks, rights on both rooks, mirrored
                let back: Vec<Option<Pc>> = (0..8).map(|f| p.sq[idx(f, 0)]).collect();
                let bishops: Vec<usize> = (0..8).filter(|&f| back[f] == Some((Color::White, Piece::Bishop))).collect();
                ok &= bishops.len() == 2 && (bishops[0] + bishops[1]) % 2 == 1;
                let rooks: Vec<usize> = (0..8).filter(|&f| back[f] == Some((Color::White, Piece::Rook))).collect();
                let king: Vec<usize> = (0..8).filter(|&f| back[f] == Some((Color::White, Piece::King))).collect();
                ok &= rooks.len() == 2 && king.len() == 1 && rooks[0] < king[0] && king[0] < rooks[1];
                if ok {
                    ok &= p.rights[0] == [Some(rooks[1] as u8), Some(rooks[0] as u8)] && p.rights[1] == p.rights[0];
                }
                for f in 0..8 {
                    ok &= p.sq[idx(f, 7)] == back[f as usize].map(|(_, pc)| (Color::Black, pc));
                    ok &= p.sq[idx(f, 1)] == Some((Color::White, Piece::Pawn)) && p.sq[idx(f, 6)] == Some((Color::Black, Piece::Pawn));
                }
                ok &= p.stm == Color::White && p.ep.is_none() && p.half == 0 && p.full == 1;
                if !ok {
                    cx.violation(
                        format!("C06|start-constructor|not-a-chess960-start"),
                        format!("chess960_startpos({}) = '{}' is not a Chess960 start position", n, write_fen(p, true)),
                        String::new(),
                        vec!["none".into()],
                    );
                }
            }
        }
    }
    // the default / standard start constructors are Scharnagl 518
    if cx.shard == 0 {
        cx.eval();
        let r = guard(|| {
            let a = Board::default();
            let b = Board::startpos();
            let c = Board::chess960_startpos(518);
            let d = BoardBuilder::default().build();
            let e = BoardBuilder::startpos().build();
            let text = format!("{}", a);
            (a == b && b == c && d.as_ref().ok() == Some(&c) && e.as_ref().ok() == Some(&c), text)
        });
        match r {
            Ok((true, text)) if text == "rnbqkbnr/pppppppp/8/8/8/8/PPPPPPPP/RNBQKBNR w KQkq - 0 1" => cx.count("default-start-constructors-agree"),
            Ok((_, text)) => cx.violation("C06|start-constructor|default-startpos".to_string(), format!("Board::default / startpos / chess960_startpos(518) / builder defaults disagree or are not the standard start ('{}')", text), String::new(), vec!["none".into()]),
            Err(e) => cx.violation("C06|panic|default-startpos".to_string(), format!("panicked: {}", e), String::new(), vec!["none".into()]),
        }
    }
    let distinct: std::collections::HashSet<String> = singles.iter().flatten().map(|p| write_placement(p)).collect();
    cx.count_n("distinct_chess960_starts", distinct.len() as u64);
    if distinct.len() != 960 {
        cx.violation("C06|start-constructor|not-960-distinct".to_string(), format!("only {} distinct start positions", distinct.len()), String::new(), vec!["none".into()]);
    }
    let mut work: Vec<(u32, u32)> = vec![(0, 0), (959, 959), (0, 959), (959, 0), (518, 518)];
    if all_pairs {
        for w in cx.mine(960).into_iter().map(|w| w as u32) {
            for bn in 0..960u32 {
                work.push((w, bn));
            }
        }
    } else {
        for _ in 0..pairs {
            work.push((cx.rng.below(960) as u32, cx.rng.below(960) as u32));
        }
    }
    for (w, bn) in work {
        cx.eval();
        cx.count("dfrc_pairs_checked");
        match guard(|| Board::double_chess960_startpos(w, bn)) {
            Err(e) => cx.violation("C06|panic|double_chess960_startpos".to_string(), format!("double_chess960_startpos({},{}) panicked: {}", w, bn, e), String::new(), vec!["none".into()]),
            Ok(b) => {
                let p = RPos::observe(&b);
                let (pw, pb) = match (&singles[w as usize], &singles[bn as usize]) {
                    (Some(a), Some(b)) => (a, b),
                    _ => continue,
                };
                let mut ok = p.structurally_sound().is_ok();
                for s in 0..32 {
                    ok &= p.sq[s] == pw.sq[s];
                }
                for s in 32..64 {
                    ok &= p.sq[s] == pb.sq[s];
                }
                ok &= p.rights[0] == pw.rights[0] && p.rights[1] == pb.rights[1];
                ok &= p.stm == Color::White && p.ep.is_none() && p.half == 0 && p.full == 1;
                if !ok {
                    cx.violation(
                        "C06|start-constructor|dfrc-halves".to_string(),
                        format!("double_chess960_startpos({},{}) = '{}' is not white half of {} + black half of {}", w, bn, write_fen(&p, true), w, bn),
                        String::new(),
                        vec!["none".into()],
                    );
                }
                cx.distinct(mix(w as u64, bn as u64 + 1000));
            }
        }
    }
    // out-of-range Scharnagl numbers must panic (documented)
    for n in [960u32, 961, 1000, u32::MAX] {
        cx.eval();
        if guard(|| Board::chess960_startpos(n)).is_ok() {
            cx.note(format!("chess960_startpos({}) did not panic (outside the properties; not asserted)", n));
        }
    }
}

// ------------------------------------------------------------------------------------------ C07

pub struct C07 {
    ring: Vec<(Board, String)>,
}

impl C07 {
    pub fn new() -> C07 {
        C07 { ring: Vec::new() }
    }
}

impl BoardMonitor for C07 {
    fn on_board(&mut self, cx: &mut Cx, b: &Board, m: &RPos, ev: &Ev) {
        cx.eval();
        let s = match guard(|| format!("{:#}", b)) {
            Ok(s) => s,
            Err(e) => {
                board_violation(cx, "C07", "panic|display-shredder".to_string(), format!("Display panicked: {}", e), b, m, ev);
                return;
            }
        };
        cx.maximum("longest_record_chars", s.len() as u64);
        if s.len() >= 90 {
            cx.count("records-of-90+-chars");
        }
        let canon = write_fen(m, true);
        if s != canon {
            let field = s.split(' ').zip(canon.split(' ')).position(|(a, b)| a != b).unwrap_or(9);
            board_violation(cx, "C07", format!("non-canonical-shredder-text|field={}", field), format!("format!(\"{{:#}}\") = '{}' but the canonical record is '{}'", s, canon), b, m, ev);
        }
        let mut check_back = |cx: &mut Cx, name: &str, r: Result<Result<Board, FenParseError>, String>| match r {
            Ok(Ok(nb)) => {
                if nb != *b {
                    let what = if RPos::observe(&nb) != *m {
                        "position-or-clocks"
                    } else if nb.hash() != b.hash() {
                        "hash"
                    } else if nb.checkers() != b.checkers() {
                        "checkers"
                    } else if nb.pinned() != b.pinned() {
                        "pinned"
                    } else {
                        "other"
                    };
                    board_violation(cx, "C07", format!("round-trip-not-equal|{}|{}", name, what), format!("{} of the board's own text gives a board that differs in {}", name, what), b, m, ev);
                }
            }
            Ok(Err(e)) => board_violation(
                cx,
                "C07",
                format!("own-text-rejected|{}|{:?}|checkers={}", name, e, m.checkers().len().min(3)),
                format!("{} rejects the board's own text '{}' with {:?}", name, s, e),
                b,
                m,
                ev,
            ),
            Err(e) => board_violation(cx, "C07", format!("panic|{}", name), format!("{} panicked: {}", name, e), b, m, ev),
        };
        check_back(cx, "from_fen(shredder)", guard(|| Board::from_fen(&s, true)));
        check_back(cx, "FromStr(shredder-text)", guard(|| s.parse::<Board>()));
        if m.plain_fen_rights() {
            cx.count("plain-fen-expressible");
            match guard(|| format!("{}", b)) {
                Ok(t) => {
                    let canon_t = write_fen(m, false);
                    if t != canon_t {
                        board_violation(cx, "C07", "non-canonical-plain-text".to_string(), format!("format!(\"{{}}\") = '{}' but the canonical record is '{}'", t, canon_t), b, m, ev);
                    }
                    check_back(cx, "from_fen(plain)", guard(|| Board::from_fen(&t, false)));
                    check_back(cx, "FromStr(plain-text)", guard(|| t.parse::<Board>()));
                }
                Err(e) => board_violation(cx, "C07", "panic|display-plain".to_string(), format!("Display panicked: {}", e), b, m, ev),
            }
        } else {
            cx.count("rights-on-inner-files(shredder-only)");
        }
        // equal boards <=> equal texts
        for (pb, ps) in &self.ring {
            let eq_b = pb == b;
            let eq_s = *ps == s;
            if eq_b != eq_s {
                board_violation(
                    cx,
                    "C07",
                    format!("equality-vs-text|boards-equal={}|texts-equal={}", eq_b, eq_s),
                    format!("boards equal: {}, texts equal: {} ('{}' vs '{}')", eq_b, eq_s, ps, s),
                    b,
                    m,
                    ev,
                );
            }
            if eq_b {
                cx.count("equal-board-pairs-compared");
            }
        }
        let fp = std_hash(b);
        if let Err((ofp, odesc)) = cx.table_put(s.clone(), fp, route_bit(ev), ev.hist.route) {
            // same text, different std-hash => boards differ in a field
            board_violation(cx, "C07", "same-text-different-boards".to_string(), format!("text '{}' was produced by two boards that are not equal ({:#x} [{}] vs {:#x})", s, ofp, odesc, fp), b, m, ev);
        }
        if self.ring.len() >= 6 {
            self.ring.remove(0);
        }
        self.ring.push((b.clone(), s.clone()));
        // revisit: an equal board built independently must print the same text
        if let Ok(Some(fresh)) = guard(|| BoardBuilder::from_board(b).build().ok()) {
            if let Ok(fs) = guard(|| format!("{:#}", fresh)) {
                if (fresh == *b) != (fs == s) {
                    board_violation(cx, "C07", "equality-vs-text|fresh".to_string(), format!("fresh board equal: {} but texts '{}' / '{}'", fresh == *b, fs, s), b, m, ev);
                }
            }
        }
        // single-aspect neighbours: a board that differs from this one in exactly one recorded field
        // (EP file, one castling right, either clock) prints a different text, so it must compare unequal
        if let Ok(bd0) = guard(|| BoardBuilder::from_board(b)) {
            let mut neigh: Vec<(&'static str, BoardBuilder)> = Vec::new();
            if bd0.en_passant.is_some() {
                let mut n = bd0.clone();
                n.en_passant = None;
                neigh.push(("ep-cleared", n));
            }
            for c in 0..2 {
                if bd0.castle_rights[c].short.is_some() {
                    let mut n = bd0.clone();
                    n.castle_rights[c].short = None;
                    neigh.push(("short-right-removed", n));
                }
                if bd0.castle_rights[c].long.is_some() {
                    let mut n = bd0.clone();
                    n.castle_rights[c].long = None;
                    neigh.push(("long-right-removed", n));
                }
            }
            {
                let mut n = bd0.clone();
                n.halfmove_clock = if bd0.halfmove_clock >= 100 { 99 } else { bd0.halfmove_clock + 1 };
                neigh.push(("halfmove-clock-changed", n));
                let mut n = bd0.clone();
                n.fullmove_number = if bd0.fullmove_number == u16::MAX { u16::MAX - 1 } else { bd0.fullmove_number + 1 };
                neigh.push(("fullmove-number-changed", n));
            }
            for (what, n) in neigh {
                if let Ok(Some(nb)) = guard(|| n.build().ok()) {
                    if let Ok(ns) = guard(|| format!("{:#}", nb)) {
                        cx.count("single-aspect-neighbours-compared");
                        let eq_b = guard(|| nb == *b && *b == nb).unwrap_or(false);
                        if eq_b != (ns == s) {
                            board_violation(
                                cx,
                                "C07",
                                format!("equality-vs-text|neighbour={}|boards-equal={}|texts-equal={}", what, eq_b, ns == s),
                                format!("neighbour ({}) '{}' vs '{}': boards equal {}, texts equal {}", what, ns, s, eq_b, ns == s),
                                b,
                                m,
                                ev,
                            );
                        }
                    }
                }
            }
        }
        if m.ep.is_some() {
            cx.count("with-ep-file");
        }
        if ev.kind == EvKind::Null {
            cx.count("after-null-move");
        }
        if m.half == 100 || m.half == 0 {
            cx.count("halfmove-edge");
        }
        if m.full == 65535 || m.full == 1 {
            cx.count("fullmove-edge");
        }
        let one_sided = (0..2).any(|c| m.rights[c][0].is_some() != m.rights[c][1].is_some());
        if one_sided {
            cx.count("one-sided-rights");
        }
        if m.ep.is_some() || !m.plain_fen_rights() || one_sided || ev.kind == EvKind::Null {
            cx.distinct(fnv(s.as_bytes()));
        }
        cx.sample(|| s.clone());
    }
}

/// Converse direction: canonical records written by the model for sound positions.
pub fn c07_canonical_records(cx: &mut Cx, budget: u64) {
    for i in 0..budget {
        let p = if i % 16 == 5 { gen::dense_fragmented_case(&mut cx.rng) } else { gen::sound_random(&mut cx.rng) };
        if write_placement(&p).len() > 64 {
            cx.count("canonical-records-with-placement-longer-than-64-chars");
        }
        for shredder in [true, false] {
            if !shredder && !p.plain_fen_rights() {
                continue;
            }
            cx.eval();
            let rec = write_fen(&p, shredder);
            for use_fromstr in [false, true] {
            let parsed = guard(|| if use_fromstr { rec.parse::<Board>() } else { Board::from_fen(&rec, shredder) });
            match parsed {
                Ok(Ok(b)) => {
                    cx.count("canonical-records-accepted");
                    let out = guard(|| if shredder { format!("{:#}", b) } else { format!("{}", b) });
                    match out {
                        Ok(t) => {
                            if t != rec {
                                cx.violation(
                                    format!("C07|canonical-record-not-reproduced|shredder={}", shredder),
                                    format!("parsing '{}' and formatting gives '{}'", rec, t),
                                    format!("record='{}'", rec),
                                    vec!["fen".to_string(), "C07".to_string(), crate::hex(&rec)],
                                );
                            }
                        }
                        Err(e) => cx.violation("C07|panic|display".to_string(), format!("Display panicked: {}", e), rec.clone(), vec!["fen".to_string(), "C07".to_string(), crate::hex(&rec)]),
                    }
                    cx.distinct(fnv(rec.as_bytes()));
                }
                Ok(Err(_)) => cx.count("canonical-records-of-model-sound-positions-rejected(not-asserted)"),
                Err(e) => cx.violation("C07|panic|parse".to_string(), format!("parser panicked: {}", e), rec.clone(), vec!["fen".to_string(), "C07".to_string(), crate::hex(&rec)]),
            }
            }
        }
    }
}

// ------------------------------------------------------------------------------------------ C09

/// Shredder-FEN record of a builder state, when one exists.
pub fn builder_record(bd: &BoardBuilder) -> Option<String> {
    let mut p = RPos::empty();
    for s in 0..64 {
        p.sq[s] = bd.board[s].map(|(pc, c)| (c, pc));
    }
    p.stm = bd.side_to_move;
    let mut s = write_placement(&p);
    s.push(' ');
    s.push(if p.stm == Color::White { 'w' } else { 'b' });
    s.push(' ');
    let mut rights = String::new();
    for &c in &[Color::White, Color::Black] {
        let r = bd.castle_rights[c as usize];
        let kings: Vec<usize> = (0..64).filter(|&q| p.sq[q] == Some((c, Piece::King))).collect();
        for (w, f) in [(0, r.short), (1, r.long)] {
            if let Some(f) = f {
                let f = f as u8;
                if kings.len() == 1 {
                    let kf = (kings[0] % 8) as u8;
                    // a Shredder letter is read as short iff it is on a higher file than the king
                    let reads_as_short = f > kf;
                    if reads_as_short != (w == 0) {
                        return None;
                    }
                }
                let ch = (b'a' + f) as char;
                rights.push(if c == Color::White { ch.to_ascii_uppercase() } else { ch });
            }
        }
    }
    if rights.is_empty() {
        rights.push('-');
    }
    s.push_str(&rights);
    s.push(' ');
    match bd.en_passant {
        Some(sq) => s.push_str(&sq_name(sq as usize)),
        None => s.push('-'),
    }
    s.push_str(&format!(" {} {}", bd.halfmove_clock, bd.fullmove_number));
    Some(s)
}

pub fn c09_random_state(cx: &mut Cx) -> (BoardBuilder, &'static str) {
    let rng = &mut cx.rng;
    match rng.below(10) {
        0..=2 => (to_builder(&gen::scatter(rng)), "scatter"),
        3 => (to_builder(&if rng.chance(1, 4) { gen::heavy_material_case(rng) } else { gen::pin_case(rng) }), "pin-lattice"),
        4 => (to_builder(&gen::ep_case(rng)), "ep-lattice"),
        5 => (to_builder(&if rng.chance(1, 4) { gen::dense_fragmented_case(rng) } else { gen::castle_case(rng) }), "castle-lattice"),
        _ => {
            let mut bd = to_builder(&gen::sound_random(rng));
            let edits = rng.below(3);
            for _ in 0..edits {
                match rng.below(8) {
                    0 => {
                        let s = rng.usize(64);
                        bd.board[s] = None;
                    }
                    1 => {
                        let s = rng.usize(64);
                        let pc = *rng.pick(&Piece::ALL);
                        let c = if rng.chance(1, 2) { Color::White } else { Color::Black };
                        bd.board[s] = Some((pc, c));
                    }
                    2 => bd.side_to_move = !bd.side_to_move,
                    3 => {
                        let c = rng.usize(2);
                        let f = Some(lib_file(rng.below(8) as u8));
                        if rng.chance(1, 2) {
                            bd.castle_rights[c].short = f
                        } else {
                            bd.castle_rights[c].long = f
                        }
                    }
                    4 => bd.en_passant = Some(lib_sq(rng.usize(64))),
                    5 => {
                        // an EP square on the right rank
                        let r = if bd.side_to_move == Color::White { 5 } else { 2 };
                        bd.en_passant = Some(lib_sq(idx(rng.range(0, 7) as i32, r)));
                    }
                    6 => bd.halfmove_clock = *rng.pick(&[0u8, 99, 100, 101, 150, 255]),
                    _ => bd.fullmove_number = *rng.pick(&[0u16, 1, 2, 65534, 65535]),
                }
            }
            (bd, "sound+edits")
        }
    }
}

fn builder_violation(cx: &mut Cx, sig: String, what: String, bd: &BoardBuilder, rec: &Option<String>) {
    let witness = format!("builder state record='{}' debug={:?}", rec.clone().unwrap_or_else(|| "<not expressible>".into()), bd);
    let argv = match rec {
        Some(r) => vec!["fen".to_string(), "C09".to_string(), crate::hex(r)],
        None => vec!["none".to_string()],
    };
    cx.violation(format!("C09|{}", sig), what, witness, argv);
}

pub fn c09_builder_vs_parser_one(cx: &mut Cx, bd: &BoardBuilder, src: &'static str) {
    cx.eval();
    let rec = builder_record(bd);
    let built = guard(|| bd.build());
    let built = match built {
        Ok(r) => r,
        Err(e) => {
            builder_violation(cx, "panic|build".to_string(), format!("build() panicked: {}", e), bd, &rec);
            return;
        }
    };
    match &rec {
        None => {
            cx.count("inexpressible-states(wrong-side-right)");
            if built.is_ok() {
                builder_violation(cx, "inexpressible-state-accepted".to_string(), "a state with a castling right on the wrong side of the king was built".to_string(), bd, &rec);
            }
        }
        Some(r) => {
            let parsed = guard(|| Board::from_fen(r, true));
            match parsed {
                Err(e) => builder_violation(cx, "panic|from_fen".to_string(), format!("from_fen panicked: {}", e), bd, &rec),
                Ok(parsed) => match (&built, &parsed) {
                    (Ok(a), Ok(b)) => {
                        cx.count("agree-accept");
                        cx.count_dyn(format!("agree-accept:{}", src));
                        if a != b {
                            builder_violation(cx, "built-and-parsed-boards-differ".to_string(), format!("build() and from_fen('{}') give different boards", r), bd, &rec);
                        }
                        // the built board denotes the builder state
                        let m = RPos::observe(a);
                        let back = to_builder(&m);
                        if back != *bd {
                            builder_violation(cx, "built-board-does-not-match-state".to_string(), "the board built does not carry the builder's fields".to_string(), bd, &rec);
                        }
                        cx.distinct(fnv(r.as_bytes()));
                    }
                    (Err(_), Err(_)) => {
                        cx.count("agree-reject");
                    }
                    (Ok(a), Err(e)) => {
                        let m = RPos::observe(a);
                        builder_violation(
                            cx,
                            format!("builder-accepts-parser-rejects|{:?}|checkers={}", e, m.checkers().len().min(3)),
                            format!("build() succeeds but from_fen('{}') fails with {:?}", r, e),
                            bd,
                            &rec,
                        );
                    }
                    (Err(e), Ok(_)) => builder_violation(cx, format!("builder-rejects-parser-accepts|{:?}", e), format!("build() fails with {:?} but from_fen('{}') succeeds", e, r), bd, &rec),
                },
            }
        }
    }
}

fn err_name(e: &BoardBuilderError) -> &'static str {
    match e {
        BoardBuilderError::InvalidBoard => "InvalidBoard",
        BoardBuilderError::InvalidCastlingRights => "InvalidCastlingRights",
        BoardBuilderError::InvalidEnPassant => "InvalidEnPassant",
        BoardBuilderError::InvalidHalfMoveClock => "InvalidHalfMoveClock",
        BoardBuilderError::InvalidFullmoveNumber => "InvalidFullmoveNumber",
    }
}

/// Exactly one aspect wrong => the error names that aspect.
pub fn c09_single_aspect(cx: &mut Cx) {
    let base = gen::sound_random(&mut cx.rng);
    // the base must be accepted as it stands
    let base_ok = matches!(guard(|| to_builder(&base).build()), Ok(Ok(_)));
    if !base_ok {
        cx.count("single-aspect:base-not-accepted(skipped)");
        return;
    }
    let aspect = cx.rng.below(5);
    let (bd, want): (BoardBuilder, &'static str) = match aspect {
        0 => {
            // placement wrong; no rights and no EP present so that nothing else can be blamed
            let mut p = base.clone();
            p.rights = [[None; 2]; 2];
            p.ep = None;
            let which = *cx.rng.pick(&[0usize, 1, 2, 3, 4, 5, 6]);
            match apply_defect(&mut cx.rng, &p, which) {
                Some((q, _)) if q.structurally_sound().is_err() => (to_builder(&q), "InvalidBoard"),
                _ => return,
            }
        }
        1 => {
            let mut p = base.clone();
            p.ep = None;
            let which = *cx.rng.pick(&[7usize, 8, 9]);
            match apply_defect(&mut cx.rng, &p, which) {
                Some((q, clause)) if q.structurally_sound() == Err(clause) => (to_builder(&q), "InvalidCastlingRights"),
                _ => return,
            }
        }
        2 => {
            let mut p = base.clone();
            p.ep = None;
            if cx.rng.chance(1, 3) {
                // wrong rank
                let mut bd = to_builder(&p);
                let good = if p.stm == Color::White { 5 } else { 2 };
                let mut r = cx.rng.range(0, 7) as i32;
                if r == good {
                    r = (r + 3) % 8;
                }
                bd.en_passant = Some(lib_sq(idx(cx.rng.range(0, 7) as i32, r)));
                (bd, "InvalidEnPassant")
            } else {
                let which = *cx.rng.pick(&[10usize, 11]);
                match apply_defect(&mut cx.rng, &p, which) {
                    // occupying a square may break another clause (e.g. give check): require isolation
                    Some((q, clause)) if q.structurally_sound() == Err(clause) => (to_builder(&q), "InvalidEnPassant"),
                    _ => return,
                }
            }
        }
        3 => {
            let mut bd = to_builder(&base);
            bd.halfmove_clock = cx.rng.range(101, 255) as u8;
            (bd, "InvalidHalfMoveClock")
        }
        _ => {
            let mut bd = to_builder(&base);
            bd.fullmove_number = 0;
            (bd, "InvalidFullmoveNumber")
        }
    };
    // "otherwise valid": with the edited aspect neutralised the library itself must accept the
    // state (the library has acceptance conditions beyond the C06 list, e.g. at most two checkers)
    let mut neutral = bd.clone();
    match want {
        "InvalidCastlingRights" => neutral.castle_rights = [CastleRights::EMPTY; 2],
        "InvalidEnPassant" => neutral.en_passant = None,
        "InvalidHalfMoveClock" => neutral.halfmove_clock = 0,
        "InvalidFullmoveNumber" => neutral.fullmove_number = 1,
        _ => {}
    }
    if want != "InvalidBoard" && !matches!(guard(|| neutral.build()), Ok(Ok(_))) {
        cx.count("single-aspect:not-otherwise-valid(skipped)");
        return;
    }
    cx.eval();
    let rec = builder_record(&bd);
    match guard(|| bd.build()) {
        Ok(Err(e)) => {
            cx.count_dyn(format!("single-aspect:{}", want));
            if err_name(&e) != want {
                builder_violation(cx, format!("wrong-error-variant|want={}|got={}", want, err_name(&e)), format!("only the aspect {} is wrong but build() reports {}", want, err_name(&e)), &bd, &rec);
            }
        }
        Ok(Ok(_)) => builder_violation(cx, format!("single-aspect-defect-accepted|{}", want), format!("a state whose only defect is {} was built", want), &bd, &rec),
        Err(e) => builder_violation(cx, "panic|build".to_string(), format!("build() panicked: {}", e), &bd, &rec),
    }
}

pub struct C09;

impl BoardMonitor for C09 {
    fn on_board(&mut self, cx: &mut Cx, b: &Board, m: &RPos, ev: &Ev) {
        cx.eval();
        let bd = match guard(|| BoardBuilder::from_board(b)) {
            Ok(x) => x,
            Err(e) => {
                board_violation(cx, "C09", "panic|from_board".to_string(), format!("from_board panicked: {}", e), b, m, ev);
                return;
            }
        };
        // accessor methods mirror the public fields
        let acc_ok = guard(|| {
            let mut ok = true;
            let mut copy = BoardBuilder::empty();
            for sq in 0..64 {
                ok &= bd.square(lib_sq(sq)) == bd.board[sq];
                *copy.square_mut(lib_sq(sq)) = bd.square(lib_sq(sq));
            }
            for c in [Color::White, Color::Black] {
                ok &= *bd.castle_rights(c) == bd.castle_rights[c as usize];
                *copy.castle_rights_mut(c) = *bd.castle_rights(c);
            }
            copy.side_to_move = bd.side_to_move;
            copy.en_passant = bd.en_passant;
            copy.halfmove_clock = bd.halfmove_clock;
            copy.fullmove_number = bd.fullmove_number;
            ok && copy == bd
        });
        if acc_ok != Ok(true) {
            board_violation(cx, "C09", "builder-accessors".to_string(), "BoardBuilder::square/square_mut/castle_rights/castle_rights_mut do not mirror the fields".to_string(), b, m, ev);
        }
        if bd != to_builder(m) {
            board_violation(cx, "C09", "from_board-fields".to_string(), "BoardBuilder::from_board does not carry the board's observable fields".to_string(), b, m, ev);
        }
        match guard(|| bd.build()) {
            Ok(Ok(nb)) => {
                if nb != *b {
                    board_violation(cx, "C09", "from_board-build-not-equal".to_string(), "from_board(b).build() != b".to_string(), b, m, ev);
                }
            }
            Ok(Err(e)) => board_violation(cx, "C09", format!("from_board-build-rejected|{}", err_name(&e)), format!("from_board(b).build() fails with {:?}", e), b, m, ev),
            Err(e) => board_violation(cx, "C09", "panic|build".to_string(), format!("build panicked: {}", e), b, m, ev),
        }
        cx.count("accepted-boards-round-tripped");
        cx.distinct(fnv(write_fen(m, true).as_bytes()));
        cx.sample(|| format!("from_board/build round trip of {}", write_fen(m, true)));
    }
}

// ------------------------------------------------------------------------------------------ C10

pub struct C10;

impl BoardMonitor for C10 {
    fn on_board(&mut self, cx: &mut Cx, b: &Board, m: &RPos, ev: &Ev) {
        cx.eval();
        let how = match ev.kind {
            EvKind::Root => "root",
            EvKind::Play => "after-play",
            EvKind::Null => "after-null-move",
        };
        let h = b.hash();
        let (vb, vt) = rebuilt(b);
        for (name, r) in [("builder", vb), ("shredder-text", vt)] {
            if let Ok(Some(fresh)) = r {
                if fresh.hash() != h {
                    let mk = match (ev.prev, ev.mv) {
                        (Some((_, pm)), Some(mv)) => move_kind(pm, mv),
                        _ => "-",
                    };
                    board_violation(
                        cx,
                        "C10",
                        format!("hash-differs-from-fresh|{}|{}|{}", name, how, mk),
                        format!("hash {:#018x} but a board of the same position constructed through {} has {:#018x}", h, name, fresh.hash()),
                        b,
                        m,
                        ev,
                    );
                }
                if fresh.hash_without_ep() != b.hash_without_ep() {
                    board_violation(cx, "C10", format!("hash_without_ep-differs-from-fresh|{}|{}", name, how), "hash_without_ep differs from a fresh board's".to_string(), b, m, ev);
                }
            }
        }
        // hash_without_ep == hash of the same position with the EP file cleared
        let mut q = m.clone();
        q.ep = None;
        match build(&q) {
            Ok(Ok(noep)) => {
                if noep.hash() != b.hash_without_ep() {
                    board_violation(
                        cx,
                        "C10",
                        format!("hash_without_ep|ep-present={}", m.ep.is_some()),
                        format!("hash_without_ep() = {:#018x} but the same position without an EP file hashes to {:#018x}", b.hash_without_ep(), noep.hash()),
                        b,
                        m,
                        ev,
                    );
                }
                if m.ep.is_some() {
                    cx.count("hash_without_ep-checked-with-ep-present");
                    if noep.hash() == h {
                        board_violation(cx, "C10", "ep-file-not-in-hash".to_string(), "the EP file does not influence hash()".to_string(), b, m, ev);
                    }
                } else if b.hash_without_ep() != h {
                    board_violation(cx, "C10", "hash_without_ep-differs-without-ep".to_string(), "no EP file but hash_without_ep() != hash()".to_string(), b, m, ev);
                }
            }
            _ => cx.count("ep-cleared-variant-refused"),
        }
        // clocks never matter
        let mut c2 = b.clone();
        let nh = cx.rng.range(0, 100) as u8;
        let nf = cx.rng.range(1, 65535) as u16;
        if guard(|| {
            c2.set_halfmove_clock(nh);
            c2.set_fullmove_number(nf);
        })
        .is_ok()
        {
            if c2.hash() != h || c2.hash_without_ep() != b.hash_without_ep() {
                board_violation(cx, "C10", "clocks-influence-hash".to_string(), "changing the clocks changed the hash".to_string(), b, m, ev);
            }
        }
        let mut q2 = m.clone();
        q2.half = nh as u32;
        q2.full = nf as u32;
        if let Ok(Ok(other_clocks)) = parse_shredder(&q2) {
            if other_clocks.hash() != h {
                board_violation(cx, "C10", "clocks-influence-hash|text".to_string(), "the same position parsed with other clocks has another hash".to_string(), b, m, ev);
            }
        }
        // cross-route table
        let key = m.key_text();
        let fp = mix(h, b.hash_without_ep());
        if let Err((ofp, odesc)) = cx.table_put(key.clone(), fp, route_bit(ev), how) {
            board_violation(
                cx,
                "C10",
                "cross-route|same-position-different-hash".to_string(),
                format!("position '{}' seen before ({}) with hash fingerprint {:#x}, now {:#x}", key, odesc, ofp, fp),
                b,
                m,
                ev,
            );
        }
        match ev.kind {
            EvKind::Play => {
                if let (Some((_, pm)), Some(mv)) = (ev.prev, ev.mv) {
                    match move_kind(pm, mv) {
                        "castle" => cx.count("hash-after-castling"),
                        "en-passant" => cx.count("hash-after-en-passant"),
                        "promotion" | "capture-promotion" => cx.count("hash-after-promotion"),
                        _ => {}
                    }
                    if pm.rights != m.rights {
                        cx.count("hash-after-rights-change");
                        let lost = (0..2).map(|c| (0..2).filter(|&w| pm.rights[c][w] != m.rights[c][w]).count()).sum::<usize>();
                        if lost >= 2 {
                            cx.count("hash-after-two-rights-lost-in-one-move");
                        }
                    }
                    if pm.ep.is_some() && m.ep.is_some() {
                        cx.count("hash-after-ep-replaced");
                    }
                }
                cx.count("hash-after-play");
            }
            EvKind::Null => cx.count("hash-after-null-move"),
            EvKind::Root => cx.count("hash-at-root"),
        }
        cx.distinct(fnv(key.as_bytes()));
        cx.sample(|| format!("{} hash={:#018x} [{}]", key, h, ev.hist.describe()));
        // transposition probe
        if cx.rng.chance(1, 4) {
            transposition_probe(cx, b, m, ev);
        }
    }
}

/// Boards arising from (possibly odd) text: whatever a parser accepts must hash like the same
/// position built through the builder.
pub fn c10_text_routes(cx: &mut Cx, n: u64) {
    use crate::workload::text::{alias_substitution, mutate, FEN_ALPHABET};
    for i in 0..n {
        let p = match i % 4 {
            0 => gen::castle_case(&mut cx.rng),
            1 => gen::ep_case(&mut cx.rng),
            _ => gen::sound_random(&mut cx.rng),
        };
        let base = write_fen(&p, cx.rng.chance(3, 4));
        let fields: Vec<&str> = base.split(' ').collect();
        let text = match cx.rng.below(6) {
            0 => base.clone(),
            1 => mutate(&mut cx.rng, &base, FEN_ALPHABET),
            2 => alias_substitution(&mut cx.rng, &base),
            3 | 4 => {
                // perturb the castling field: add / repeat / reorder rook letters
                let mut c: Vec<char> = fields[2].chars().filter(|&x| x != '-').collect();
                let extra = *cx.rng.pick(&['A', 'B', 'C', 'D', 'E', 'F', 'G', 'H', 'a', 'b', 'c', 'd', 'e', 'f', 'g', 'h', 'K', 'Q', 'k', 'q']);
                let at = cx.rng.usize(c.len() + 1);
                c.insert(at, extra);
                if cx.rng.chance(1, 3) {
                    cx.rng.shuffle(&mut c);
                }
                let mut f: Vec<String> = fields.iter().map(|x| x.to_string()).collect();
                f[2] = c.into_iter().collect();
                f.join(" ")
            }
            _ => {
                // another EP square / clocks
                let mut f: Vec<String> = fields.iter().map(|x| x.to_string()).collect();
                f[3] = format!("{}{}", (b'a' + cx.rng.below(8) as u8) as char, if p.stm == cozy_chess::Color::White { 6 } else { 3 });
                f[4] = cx.rng.range(0, 100).to_string();
                f.join(" ")
            }
        };
        for which in 0..3 {
            let r = guard(|| match which {
                0 => Board::from_fen(&text, false).ok(),
                1 => Board::from_fen(&text, true).ok(),
                _ => text.parse::<Board>().ok(),
            });
            if let Ok(Some(b)) = r {
                cx.eval();
                cx.count("text-route-boards");
                let m = RPos::observe(&b);
                if let Ok(Ok(fresh)) = build(&m) {
                    if fresh.hash() != b.hash() || fresh.hash_without_ep() != b.hash_without_ep() {
                        cx.violation(
                            "C10|text-route|hash-differs-from-builder-route".to_string(),
                            format!("the board parsed from {:?} has hash {:#018x} but the same position built through the builder has {:#018x}", text, b.hash(), fresh.hash()),
                            format!("text={:?} position='{}'", text, write_fen(&m, true)),
                            vec!["fen".to_string(), "C10".to_string(), crate::hex(&text)],
                        );
                    }
                }
                cx.distinct(fnv(text.as_bytes()));
            }
        }
    }
}

/// Two of our moves and two replies played in two different orders; if the rules say both orders
/// are legal and reach the same position, the hashes must agree.
fn transposition_probe(cx: &mut Cx, b: &Board, m: &RPos, ev: &Ev) {
    let l0 = m.legal_moves();
    if l0.len() < 2 {
        return;
    }
    for _ in 0..4 {
        let a1 = *cx.rng.pick(&l0);
        let a2 = *cx.rng.pick(&l0);
        if a1.from == a2.from || a1.to == a2.to {
            continue;
        }
        let p1 = m.make(a1);
        let l1 = p1.legal_moves();
        if l1.len() < 2 {
            continue;
        }
        let r1 = *cx.rng.pick(&l1);
        let r2 = *cx.rng.pick(&l1);
        if r1.from == r2.from || r1.to == r2.to {
            continue;
        }
        let orders = [[a1, r1, a2, r2], [a2, r2, a1, r1], [a2, r1, a1, r2], [a1, r2, a2, r1]];
        let mut results: Vec<(RPos, Board, usize)> = Vec::new();
        'order: for (oi, ord) in orders.iter().enumerate() {
            let mut p = m.clone();
            let mut lb = b.clone();
            for &mv in ord {
                if !p.legal_moves().contains(&mv) {
                    continue 'order;
                }
                p = p.make(mv);
                if guard(|| lb.play_unchecked(mv.lib())).is_err() {
                    continue 'order;
                }
            }
            results.push((p, lb, oi));
        }
        for i in 1..results.len() {
            if results[i].0.key_text() == results[0].0.key_text() {
                cx.eval();
                cx.count("transpositions-compared");
                if results[i].1.hash() != results[0].1.hash() {
                    let seq = |o: usize| orders[o].iter().map(|x| x.text()).collect::<Vec<_>>().join(" ");
                    board_violation(
                        cx,
                        "C10",
                        "transposition|different-hash".to_string(),
                        format!("orders [{}] and [{}] reach the same position '{}' with hashes {:#x} / {:#x}", seq(results[0].2), seq(results[i].2), results[0].0.key_text(), results[0].1.hash(), results[i].1.hash()),
                        b,
                        m,
                        ev,
                    );
                }
                if !results[i].1.same_position(&results[0].1) {
                    cx.count("transposition-same_position-false(see C13)");
                }
            }
        }
        return;
    }
}

// ------------------------------------------------------------------------------------------ C13

pub struct C13 {
    prev: Option<(Board, RPos)>,
}

impl C13 {
    pub fn new() -> C13 {
        C13 { prev: None }
    }
}

fn eff_ep(m: &RPos) -> Option<u8> {
    if m.ep.is_some() && m.ep_capture_legal() {
        m.ep
    } else {
        None
    }
}

fn same_by_rules(a: &RPos, b: &RPos) -> bool {
    a.sq == b.sq && a.stm == b.stm && a.rights == b.rights && eff_ep(a) == eff_ep(b)
}

impl BoardMonitor for C13 {
    fn on_board(&mut self, cx: &mut Cx, b: &Board, m: &RPos, ev: &Ev) {
        // the group: b itself, clock variant, EP-cleared variant, EP-added variants, one-right-less
        // variant, other side to move, one piece changed, and the previous board of the stream
        let mut group: Vec<(Board, RPos, &'static str)> = vec![(b.clone(), m.clone(), "self")];
        let mut c2 = b.clone();
        let nh = cx.rng.range(0, 100) as u8;
        let nf = cx.rng.range(1, 65535) as u16;
        if guard(|| {
            c2.set_halfmove_clock(nh);
            c2.set_fullmove_number(nf);
        })
        .is_ok()
        {
            let m2 = RPos::observe(&c2);
            group.push((c2, m2, "other-clocks"));
        }
        let mut push_variant = |group: &mut Vec<(Board, RPos, &'static str)>, q: RPos, name: &'static str| {
            if let Ok(Ok(nb)) = build(&q) {
                let nm = RPos::observe(&nb);
                group.push((nb, nm, name));
            }
        };
        if m.ep.is_some() {
            let mut q = m.clone();
            q.ep = None;
            push_variant(&mut group, q, "ep-cleared");
        } else {
            // add a backed EP file where the structure allows it
            let them = other(m.stm);
            let mut files: Vec<u8> = (0..8u8)
                .filter(|&f| {
                    m.sq[idx(f as i32, rel_rank(them, 4))] == Some((them, Piece::Pawn))
                        && m.sq[idx(f as i32, rel_rank(them, 3))].is_none()
                        && m.sq[idx(f as i32, rel_rank(them, 2))].is_none()
                })
                .collect();
            cx.rng.shuffle(&mut files);
            for f in files.into_iter().take(2) {
                let mut q = m.clone();
                q.ep = Some(f);
                push_variant(&mut group, q, "ep-added");
            }
        }
        {
            let mut q = m.clone();
            let set: Vec<(usize, usize)> = (0..2).flat_map(|c| (0..2).map(move |w| (c, w))).filter(|&(c, w)| m.rights[c][w].is_some()).collect();
            if !set.is_empty() {
                let &(c, w) = cx.rng.pick(&set);
                q.rights[c][w] = None;
                push_variant(&mut group, q, "one-right-less");
            }
        }
        {
            let mut q = m.clone();
            q.stm = other(m.stm);
            q.ep = None;
            push_variant(&mut group, q, "other-side-to-move");
        }
        {
            let mut q = m.clone();
            let s = cx.rng.usize(64);
            if !matches!(q.sq[s], Some((_, Piece::King))) {
                q.sq[s] = if q.sq[s].is_some() { None } else if (8..56).contains(&s) { Some((m.stm, Piece::Knight)) } else { None };
                if q.sq != m.sq {
                    q.ep = None;
                    for c in 0..2 {
                        for w in 0..2 {
                            if let Some(f) = q.rights[c][w] {
                                let cc = if c == 0 { Color::White } else { Color::Black };
                                if q.sq[idx(f as i32, rel_rank(cc, 1))] != Some((cc, Piece::Rook)) {
                                    q.rights[c][w] = None;
                                }
                            }
                        }
                    }
                    push_variant(&mut group, q, "one-piece-changed");
                }
            }
        }
        if let Some((pb, pm)) = self.prev.take() {
            group.push((pb, pm, "previous-board-of-stream"));
        }
        // evaluate the relation on all ordered pairs
        let n = group.len();
        let mut rel = vec![vec![false; n]; n];
        for i in 0..n {
            for j in 0..n {
                cx.eval();
                let want = same_by_rules(&group[i].1, &group[j].1);
                let got = match guard(|| group[i].0.same_position(&group[j].0)) {
                    Ok(x) => x,
                    Err(e) => {
                        board_violation(cx, "C13", "panic|same_position".to_string(), format!("same_position panicked: {}", e), b, m, ev);
                        continue;
                    }
                };
                rel[i][j] = got;
                if got != want {
                    let (a, c) = (&group[i].1, &group[j].1);
                    let only_ep = a.sq == c.sq && a.stm == c.stm && a.rights == c.rights;
                    // what stands on the capture squares of the EP file(s)?
                    let mut capsq = "none";
                    for p in [a, c] {
                        if let Some(f) = p.ep {
                            let r = rel_rank(other(p.stm), 4);
                            for df in [-1, 1] {
                                if on(f as i32 + df, r) {
                                    if let Some((cc, pc)) = p.sq[idx(f as i32 + df, r)] {
                                        if cc == p.stm {
                                            capsq = if pc == Piece::Pawn { if capsq == "none" { "own-pawn" } else { capsq } } else { "own-non-pawn" };
                                        }
                                    }
                                }
                            }
                        }
                    }
                    board_violation(
                        cx,
                        "C13",
                        format!("same_position|got={}|want={}|differ-only-in-ep={}|capture-squares={}|pair={}+{}", got, want, only_ep, capsq, group[i].2, group[j].2),
                        format!(
                            "same_position('{}', '{}') = {} but by FIDE identity it is {} (effective EP {:?} vs {:?})",
                            write_fen(a, true),
                            write_fen(c, true),
                            got,
                            want,
                            eff_ep(a),
                            eff_ep(c)
                        ),
                        b,
                        m,
                        ev,
                    );
                }
                if i == j && !got {
                    board_violation(cx, "C13", "not-reflexive".to_string(), "same_position(b, b) is false".to_string(), b, m, ev);
                }
                cx.count_dyn(format!("pair:{}:{}", group[i].2.min(group[j].2), if want { "same" } else { "different" }));
            }
        }
        for i in 0..n {
            for j in 0..n {
                if rel[i][j] != rel[j][i] {
                    board_violation(cx, "C13", "not-symmetric".to_string(), format!("same_position is not symmetric on {} / {}", group[i].2, group[j].2), b, m, ev);
                }
                for k in 0..n {
                    if rel[i][j] && rel[j][k] && !rel[i][k] {
                        board_violation(cx, "C13", "not-transitive".to_string(), format!("same_position is not transitive on {} / {} / {}", group[i].2, group[j].2, group[k].2), b, m, ev);
                    }
                }
            }
        }
        // EP classes
        for (_, gm, _) in &group {
            if gm.ep.is_some() {
                if eff_ep(gm).is_some() {
                    cx.count("ep-file-with-legal-capture");
                } else {
                    let t = gm.ep_target().unwrap();
                    let pseudo = gm.pseudo_moves().iter().any(|mv| mv.to as usize == t && gm.is_ep_capture(*mv));
                    if pseudo {
                        cx.count("ep-file-with-capturer-but-illegal");
                    } else {
                        cx.count("ep-file-without-capturing-pawn");
                        // a non-pawn of the mover on a capture square?
                        let f = gm.ep.unwrap() as i32;
                        let r = rel_rank(other(gm.stm), 4);
                        for df in [-1, 1] {
                            if on(f + df, r) {
                                if let Some((cc, pc)) = gm.sq[idx(f + df, r)] {
                                    if cc == gm.stm && pc != Piece::Pawn {
                                        cx.count("ep-file-with-non-pawn-on-capture-square");
                                    }
                                }
                            }
                        }
                    }
                }
            }
        }
        if n > 2 {
            cx.distinct(pos_key(m));
        }
        cx.sample(|| format!("group of {} around {}", n, write_fen(m, true)));
        self.prev = Some((b.clone(), m.clone()));
    }
}

#[allow(dead_code)]
fn _unused(_: CastleRights) {}
