//! C05 — attack and geometry lookups equal their geometric definition.

use crate::refmodel::geom;
use crate::refmodel::*;
use crate::runtime::*;
use cozy_chess::*;

fn deposit(mask: u64, k: u64) -> u64 {
    // k-th subset of mask: spread the low bits of k over the set bits of mask (plain loop)
    let mut out = 0u64;
    let mut j = 0;
    for i in 0..64 {
        if (mask >> i) & 1 == 1 {
            if (k >> j) & 1 == 1 {
                out |= 1u64 << i;
            }
            j += 1;
        }
    }
    out
}

fn viol(cx: &mut Cx, sig: String, what: String, args: Vec<String>) {
    let mut argv = vec!["c05".to_string()];
    argv.extend(args);
    cx.violation(format!("C05|{}", sig), what.clone(), format!("{} backend={} profile={}", what, BACKEND, PROFILE), argv);
}

fn slider_one(cx: &mut Cx, s: usize, occ: u64, rook: bool, digest: &mut u64, class: &'static str) {
    let sq = Square::ALL[s];
    let want = if rook { geom::rook_attacks(s, occ) } else { geom::bishop_attacks(s, occ) };
    let name = if rook { "rook" } else { "bishop" };
    cx.eval();
    let got = guard(|| if rook { get_rook_moves(sq, BitBoard(occ)) } else { get_bishop_moves(sq, BitBoard(occ)) });
    match got {
        Ok(g) => {
            *digest = mix(*digest, g.0);
            if g.0 != want {
                viol(
                    cx,
                    format!("slider-lookup|{}|{}", name, class),
                    format!("get_{}_moves({}, {:#018x}) = {:#018x}, ray walk gives {:#018x}", name, sq_name(s), occ, g.0, want),
                    vec![name.to_string(), s.to_string(), format!("{:#x}", occ)],
                );
            }
        }
        Err(e) => viol(cx, format!("panic|slider-lookup|{}", name), format!("get_{}_moves({}, {:#018x}) panicked: {}", name, sq_name(s), occ, e), vec![name.to_string(), s.to_string(), format!("{:#x}", occ)]),
    }
    let gc = guard(|| if rook { get_rook_moves_const(sq, BitBoard(occ)) } else { get_bishop_moves_const(sq, BitBoard(occ)) });
    match gc {
        Ok(g) => {
            if g.0 != want {
                viol(
                    cx,
                    format!("slider-const|{}|{}", name, class),
                    format!("get_{}_moves_const({}, {:#018x}) = {:#018x}, ray walk gives {:#018x}", name, sq_name(s), occ, g.0, want),
                    vec![name.to_string(), s.to_string(), format!("{:#x}", occ)],
                );
            }
        }
        Err(e) => viol(cx, format!("panic|slider-const|{}", name), format!("const variant panicked: {}", e), vec![name.to_string(), s.to_string(), format!("{:#x}", occ)]),
    }
    // table index stays inside the generated table (types crate, same back end)
    let ix = guard(|| if rook { cozy_chess_types::get_rook_moves_index(sq, BitBoard(occ)) } else { cozy_chess_types::get_bishop_moves_index(sq, BitBoard(occ)) });
    if let Ok(ix) = ix {
        if ix >= cozy_chess_types::SLIDING_MOVE_TABLE_SIZE {
            viol(cx, format!("index-out-of-table|{}", name), format!("index {} >= table size {}", ix, cozy_chess_types::SLIDING_MOVE_TABLE_SIZE), vec![name.to_string(), s.to_string(), format!("{:#x}", occ)]);
        }
    }
}

pub fn replay_one(cx: &mut Cx, name: &str, s: usize, occ: u64) {
    let mut d = 0;
    slider_one(cx, s, occ, name == "rook", &mut d, "replay");
}

pub fn run(cfg: &Cfg) -> Result<Outcome, String> {
    let stats = run_sharded(cfg, |cx| {
        let noise_n: usize = if cx.miri { 2 } else if cx.is_thorough() { 256 } else { 64 };
        let random_n: u64 = if cx.miri { 200 } else { cx.budget(160_000_000, 4_000_000_000) };
        let squares: Vec<usize> = if cx.miri { vec![0, 27, 63] } else { cx.mine(64) };
        let max_subsets: u64 = if cx.miri { 24 } else { u64::MAX };
        let mut digest = 0u64;
        // ---- sliders: every subset of the relevant-blocker mask x noise in the irrelevant bits
        for s in squares.clone() {
            for rook in [true, false] {
                let dirs: &[(i32, i32)] = if rook { &ROOK_D } else { &BISHOP_D };
                let rel = geom::relevant_mask(s, dirs);
                let nbits = rel.count_ones();
                let irrelevant = !rel;
                let mut noises: Vec<u64> = vec![0, irrelevant, 1u64 << s, irrelevant & !(1u64 << s)];
                // edges only / everything except the rays
                let rays = if rook { geom::rook_attacks(s, 0) } else { geom::bishop_attacks(s, 0) };
                noises.push(rays & irrelevant);
                noises.push(!rays);
                while noises.len() < noise_n {
                    let r = match noises.len() % 3 {
                        0 => cx.rng.next_u64(),
                        1 => cx.rng.sparse(3),
                        _ => !cx.rng.sparse(3),
                    };
                    noises.push(r & irrelevant);
                }
                for k in 0..(1u64 << nbits).min(max_subsets) {
                    let sub = deposit(rel, k);
                    for (ni, &nz) in noises.iter().enumerate() {
                        let occ = sub | (nz & irrelevant);
                        let mut d = 0u64;
                        slider_one(cx, s, occ, rook, &mut d, if ni == 0 { "relevant-subset" } else { "relevant-subset+noise" });
                        if ni < 6 {
                            digest = mix(digest, d);
                        }
                    }
                    cx.distinct(mix(mix(s as u64, rook as u64), sub));
                }
                cx.count_n(if rook { "rook_relevant_subsets" } else { "bishop_relevant_subsets" }, (1u64 << nbits).min(max_subsets));
            }
        }
        // ---- sliders: random / sparse / dense occupancies on random squares
        for i in 0..random_n {
            let s = cx.rng.usize(64);
            let occ = match i % 4 {
                0 => cx.rng.next_u64(),
                1 => cx.rng.sparse(2),
                2 => cx.rng.sparse(4),
                _ => !cx.rng.sparse(3),
            };
            let mut d = 0;
            slider_one(cx, s, occ, i % 2 == 0, &mut d, "random-occupancy");
            cx.count("random_occupancies");
        }
        // ---- exhaustive small domains (done by shard 0 .. each shard takes a slice of `a`)
        for a in squares.clone() {
            let sa = Square::ALL[a];
            let checks: [(&'static str, Result<BitBoard, String>, u64); 4] = [
                ("knight", guard(|| get_knight_moves(sa)), geom::leaper(a, &KNIGHT_D)),
                ("king", guard(|| get_king_moves(sa)), geom::leaper(a, &KING_D)),
                ("rook-rays", guard(|| get_rook_rays(sa)), geom::rook_attacks(a, 0)),
                ("bishop-rays", guard(|| get_bishop_rays(sa)), geom::bishop_attacks(a, 0)),
            ];
            for (name, got, want) in checks {
                cx.eval();
                match got {
                    Ok(g) => {
                        digest = mix(digest, g.0);
                        if g.0 != want {
                            viol(cx, format!("leaper-or-ray|{}", name), format!("{}({}) = {:#018x}, definition gives {:#018x}", name, sq_name(a), g.0, want), vec!["none".into()]);
                        }
                    }
                    Err(e) => viol(cx, format!("panic|{}", name), format!("{}({}) panicked: {}", name, sq_name(a), e), vec!["none".into()]),
                }
            }
            for c in [Color::White, Color::Black] {
                cx.eval();
                match guard(|| get_pawn_attacks(sa, c)) {
                    Ok(g) => {
                        digest = mix(digest, g.0);
                        let want = geom::pawn_attacks(a, c);
                        if g.0 != want {
                            viol(cx, "pawn-attacks".to_string(), format!("get_pawn_attacks({}, {:?}) = {:#018x}, definition gives {:#018x}", sq_name(a), c, g.0, want), vec!["none".into()]);
                        }
                    }
                    Err(e) => viol(cx, "panic|pawn-attacks".to_string(), format!("panicked: {}", e), vec!["none".into()]),
                }
                // pawn pushes: the two squares in front x noise, + random
                let (f, r) = fr(a);
                let d = fwd(c);
                let mut front = 0u64;
                for k in 1..=2 {
                    if on(f, r + d * k) {
                        front |= 1u64 << idx(f, r + d * k);
                    }
                }
                let nfront = front.count_ones();
                let noise_q = if cx.miri { 3 } else if cx.is_thorough() { 256 } else { 24 };
                for k in 0..(1u64 << nfront) {
                    let sub = deposit(front, k);
                    for ni in 0..noise_q {
                        let nz = match ni {
                            0 => 0,
                            1 => !front,
                            2 => 1u64 << a,
                            _ => cx.rng.next_u64() & !front,
                        };
                        let occ = sub | (nz & !front);
                        cx.eval();
                        match guard(|| get_pawn_quiets(sa, c, BitBoard(occ))) {
                            Ok(g) => {
                                if ni < 3 {
                                    digest = mix(digest, g.0);
                                }
                                let want = geom::pawn_quiets(a, c, occ);
                                if g.0 != want {
                                    viol(
                                        cx,
                                        format!("pawn-quiets|rank={}", r + 1),
                                        format!("get_pawn_quiets({}, {:?}, {:#018x}) = {:#018x}, definition gives {:#018x}", sq_name(a), c, occ, g.0, want),
                                        vec!["none".into()],
                                    );
                                }
                            }
                            Err(e) => viol(cx, "panic|pawn-quiets".to_string(), format!("get_pawn_quiets({}, {:?}, {:#x}) panicked: {}", sq_name(a), c, occ, e), vec!["none".into()]),
                        }
                    }
                }
                cx.count("pawn_quiet_square_colour_pairs");
            }
            for b in 0..64 {
                let sb = Square::ALL[b];
                cx.evals(2);
                match guard(|| (get_between_rays(sa, sb), get_line_rays(sa, sb))) {
                    Ok((bt, ln)) => {
                        digest = mix(mix(digest, bt.0), ln.0);
                        let wb = geom::between(a, b);
                        let wl = geom::line(a, b);
                        if bt.0 != wb {
                            viol(cx, format!("between|aligned={}", geom::aligned(a, b).is_some()), format!("get_between_rays({}, {}) = {:#018x}, definition gives {:#018x}", sq_name(a), sq_name(b), bt.0, wb), vec!["none".into()]);
                        }
                        if ln.0 != wl {
                            viol(cx, format!("line|aligned={}", geom::aligned(a, b).is_some()), format!("get_line_rays({}, {}) = {:#018x}, definition gives {:#018x}", sq_name(a), sq_name(b), ln.0, wl), vec!["none".into()]);
                        }
                    }
                    Err(e) => viol(cx, "panic|between-or-line".to_string(), format!("panicked: {}", e), vec!["none".into()]),
                }
                cx.count("square_pairs");
            }
        }
        cx.st.dyn_counters.insert(format!("digest_shard_{:02}", cx.shard), (digest >> 1) as u64);
        cx.sample(|| format!("rook on d4 with occupancy {:#018x} -> {:#018x}", 0x0000_0008_1400_0000u64, geom::rook_attacks(27, 0x0000_0008_1400_0000)));
    })?;
    Ok(Outcome {
        stats,
        rule: "every subset of the relevant-blocker mask of every square (rook 102400 + bishop 5248) x noise fillings of the irrelevant bits, plus random/sparse/dense occupancies; lookups and const variants against a ray walker; leapers, pawn attacks, rays, between/line exhaustive over their arguments; pawn pushes over both front squares x noise; distinct = (square, piece, relevant subset)".to_string(),
        floors: vec![
            Floor { counter: "rook_relevant_subsets", at_least: 102_400 },
            Floor { counter: "bishop_relevant_subsets", at_least: 5_248 },
            Floor { counter: "square_pairs", at_least: 4096 },
            Floor { counter: "pawn_quiet_square_colour_pairs", at_least: 128 },
        ],
        exhaustive: false,
        exhaustive_note: "exhaustive over the relevant-blocker subsets (the complete table domain), leapers, rays, 64x64 between/line; sampled over irrelevant occupancy bits".to_string(),
        inconclusive: None,
    })
}
