//! C11 — the position hash separates positions that differ in a few features.
//!
//! Two observers, both through `Board::hash` only (plus, when the guarded hook is compiled in, the
//! key table itself):
//!  * key recovery: elementary feature keys are recovered as hash differences of accepted board
//!    pairs differing in exactly that feature, from several unrelated backgrounds (which must agree);
//!    an offline checker then decides every 1..4-feature XOR realisable between accepted boards.
//!  * direct monitor: random edited pairs of accepted boards at feature distance 1..4, and every
//!    null move / quiet move / plain capture along walks.

use super::*;
use crate::refmodel::fen::write_fen;
use crate::workload::gen;
use cozy_chess::Color;
use std::collections::HashMap;

fn adjacent(a: usize, b: usize) -> bool {
    let ((af, ar), (bf, br)) = (fr(a), fr(b));
    (af - bf).abs() <= 1 && (ar - br).abs() <= 1
}

fn hash_of(p: &RPos) -> Option<u64> {
    match build(p) {
        Ok(Ok(b)) => Some(b.hash()),
        _ => None,
    }
}

fn bare(wk: usize, bk: usize, stm: Color) -> RPos {
    let mut p = RPos::empty();
    p.sq[wk] = Some((Color::White, Piece::King));
    p.sq[bk] = Some((Color::Black, Piece::King));
    p.stm = stm;
    p
}

fn random_kings(cx: &mut Cx, avoid: &[usize]) -> (usize, usize) {
    loop {
        let wk = cx.rng.usize(64);
        let bk = cx.rng.usize(64);
        if wk != bk && !adjacent(wk, bk) && !avoid.contains(&wk) && !avoid.contains(&bk) {
            return (wk, bk);
        }
    }
}

#[derive(Clone, Debug)]
pub struct Keys {
    /// non-king single features: (name, key)
    pub singles: Vec<(String, u64)>,
    /// king relative keys per colour: KR[c][s] = K_c@s ^ K_c@ref(c)
    pub king_rel: [Vec<Option<u64>>; 2],
}

fn kv(cx: &mut Cx, sig: &str, what: String) {
    cx.violation(format!("C11|{}", sig), what.clone(), what, vec!["none".to_string()]);
}

/// Recover one key from `n` unrelated backgrounds produced by `f`; all recoveries must agree.
fn recover(cx: &mut Cx, name: &str, n: usize, mut f: impl FnMut(&mut Cx) -> Option<(RPos, RPos)>) -> Option<u64> {
    let mut vals: Vec<(u64, String)> = Vec::new();
    let mut tries = 0;
    while vals.len() < n && tries < 200 {
        tries += 1;
        if let Some((a, b)) = f(cx) {
            if let (Some(ha), Some(hb)) = (hash_of(&a), hash_of(&b)) {
                cx.eval();
                vals.push((ha ^ hb, format!("'{}' vs '{}'", write_fen(&a, true), write_fen(&b, true))));
            }
        }
    }
    if vals.is_empty() {
        cx.count("keys_not_recoverable");
        return None;
    }
    for v in &vals[1..] {
        if v.0 != vals[0].0 {
            kv(cx, "recovery-disagrees(hash-not-a-pure-xor-of-feature-keys)", format!("feature {}: difference {:#x} from {} but {:#x} from {}", name, vals[0].0, vals[0].1, v.0, v.1));
        }
    }
    cx.count_n("key_recoveries", vals.len() as u64);
    Some(vals[0].0)
}

pub fn recover_keys(cx: &mut Cx, per_key: usize) -> Keys {
    let mut singles: Vec<(String, u64)> = Vec::new();
    // piece keys
    for &c in &[Color::White, Color::Black] {
        for pc in [Piece::Pawn, Piece::Knight, Piece::Bishop, Piece::Rook, Piece::Queen] {
            for s in 0..64 {
                if pc == Piece::Pawn && (s < 8 || s >= 56) {
                    continue;
                }
                let name = format!("{:?}-{:?}@{}", c, pc, sq_name(s));
                let k = recover(cx, &name, per_key, |cx| {
                    let (wk, bk) = random_kings(cx, &[s]);
                    // the side that may be attacked by the new piece is to move
                    let a = bare(wk, bk, other(c));
                    let mut b = a.clone();
                    b.sq[s] = Some((c, pc));
                    Some((a, b))
                });
                if let Some(k) = k {
                    singles.push((name, k));
                }
            }
        }
    }
    // castling keys (colour, file), from both wings where possible
    for &c in &[Color::White, Color::Black] {
        let br = rel_rank(c, 1);
        for f in 0..8i32 {
            let name = format!("{:?}-castle-file-{}", c, (b'a' + f as u8) as char);
            let k = recover(cx, &name, per_key.max(4), |cx| {
                // king on the back rank on either side of the rook file
                let kf = loop {
                    let kf = cx.rng.range(0, 7) as i32;
                    if kf != f {
                        break kf;
                    }
                };
                let ok = loop {
                    let s = cx.rng.usize(64);
                    if !adjacent(s, idx(kf, br)) && s != idx(f, br) && s != idx(kf, br) && (s / 8) as i32 != br {
                        break s;
                    }
                };
                let mut a = RPos::empty();
                a.sq[idx(kf, br)] = Some((c, Piece::King));
                a.sq[ok] = Some((other(c), Piece::King));
                a.sq[idx(f, br)] = Some((c, Piece::Rook));
                a.stm = other(c);
                let mut b = a.clone();
                let wing = if f > kf { 0 } else { 1 };
                b.rights[ci(c)][wing] = Some(f as u8);
                Some((a, b))
            });
            if let Some(k) = k {
                singles.push((name, k));
            }
        }
    }
    // EP keys
    for f in 0..8i32 {
        let name = format!("ep-file-{}", (b'a' + f as u8) as char);
        let k = recover(cx, &name, per_key.max(4), |cx| {
            let us = if cx.rng.chance(1, 2) { Color::White } else { Color::Black };
            let them = other(us);
            let pawn = idx(f, rel_rank(them, 4));
            let passed = idx(f, rel_rank(them, 3));
            let origin = idx(f, rel_rank(them, 2));
            let (wk, bk) = random_kings(cx, &[pawn, passed, origin]);
            let mut a = bare(wk, bk, us);
            a.sq[pawn] = Some((them, Piece::Pawn));
            let mut b = a.clone();
            b.ep = Some(f as u8);
            Some((a, b))
        });
        if let Some(k) = k {
            singles.push((name, k));
        }
    }
    // side key
    if let Some(k) = recover(cx, "side-to-move", per_key.max(6), |cx| {
        let (wk, bk) = random_kings(cx, &[]);
        Some((bare(wk, bk, Color::White), bare(wk, bk, Color::Black)))
    }) {
        singles.push(("black-to-move".to_string(), k));
    }
    // king relative keys
    let mut king_rel: [Vec<Option<u64>>; 2] = [vec![None; 64], vec![None; 64]];
    for &c in &[Color::White, Color::Black] {
        let refs = [0usize, 63, 27]; // a1, h8, d4: every square is non-adjacent to at least... handled below
        king_rel[ci(c)][refs[0]] = Some(0);
        for s in 0..64 {
            if s == refs[0] {
                continue;
            }
            let name = format!("{:?}-king@{}^king@a1", c, sq_name(s));
            let k = recover(cx, &name, per_key, |cx| {
                // other king non-adjacent to both s and the reference
                let o = loop {
                    let o = cx.rng.usize(64);
                    if o != s && o != refs[0] && !adjacent(o, s) && !adjacent(o, refs[0]) {
                        break o;
                    }
                };
                let mut a = RPos::empty();
                a.sq[refs[0]] = Some((c, Piece::King));
                a.sq[o] = Some((other(c), Piece::King));
                a.stm = if cx.rng.chance(1, 2) { Color::White } else { Color::Black };
                let mut b = a.clone();
                b.sq[refs[0]] = None;
                b.sq[s] = Some((c, Piece::King));
                Some((a, b))
            });
            king_rel[ci(c)][s] = k;
        }
        // consistency through a second reference: KR[s] ^ KR[t] must equal the directly observed delta
        for _ in 0..200 {
            let s = cx.rng.usize(64);
            let t = cx.rng.usize(64);
            if s == t {
                continue;
            }
            let o = loop {
                let o = cx.rng.usize(64);
                if o != s && o != t && !adjacent(o, s) && !adjacent(o, t) {
                    break o;
                }
            };
            let mut a = RPos::empty();
            a.sq[s] = Some((c, Piece::King));
            a.sq[o] = Some((other(c), Piece::King));
            let mut b = a.clone();
            b.sq[s] = None;
            b.sq[t] = Some((c, Piece::King));
            if let (Some(ha), Some(hb), Some(ks), Some(kt)) = (hash_of(&a), hash_of(&b), king_rel[ci(c)][s], king_rel[ci(c)][t]) {
                cx.eval();
                if ha ^ hb != ks ^ kt {
                    kv(cx, "recovery-disagrees(king-deltas)", format!("{:?} king {}->{}: direct delta {:#x}, via a1 {:#x}", c, sq_name(s), sq_name(t), ha ^ hb, ks ^ kt));
                }
                cx.count("king_delta_cross_checks");
            }
        }
    }
    Keys { singles, king_rel }
}

/// Offline checker over the recovered keys: every XOR of 1..4 distinct features that can separate
/// two accepted boards is non-zero.
pub fn check_combinations(cx: &mut Cx, keys: &Keys) {
    let s = &keys.singles;
    let n = s.len();
    cx.count_n("single_feature_keys", n as u64);
    // 1 feature
    for (name, k) in s {
        cx.eval();
        if *k == 0 {
            kv(cx, "zero-key", format!("feature {} has key 0: positions differing only in it collide", name));
        }
    }
    // 2 features: all keys distinct
    let mut by_val: HashMap<u64, usize> = HashMap::with_capacity(n * 2);
    for (i, (name, k)) in s.iter().enumerate() {
        cx.eval();
        if let Some(&j) = by_val.get(k) {
            let kind = if name.contains("castle") && s[j].0.contains("castle") {
                "castle-castle"
            } else if name.starts_with("ep-") && s[j].0.starts_with("ep-") {
                "ep-ep"
            } else {
                "other"
            };
            kv(cx, &format!("equal-keys|{}", kind), format!("features {} and {} have the same key {:#x}: boards differing in exactly these two collide", s[j].0, name, k));
        } else {
            by_val.insert(*k, i);
        }
    }
    // 3 and 4 features: pair XORs
    let mut pairs: HashMap<u64, (u32, u32)> = HashMap::with_capacity(n * n / 2 + 16);
    let mut pair_dups = 0u64;
    for i in 0..n {
        for j in (i + 1)..n {
            let x = s[i].1 ^ s[j].1;
            if let Some(&k) = by_val.get(&x) {
                if k != i && k != j {
                    kv(cx, "three-feature-collision", format!("{} ^ {} == {}", s[i].0, s[j].0, s[k].0));
                }
            }
            if let Some(&(a, b)) = pairs.get(&x) {
                let (a, b) = (a as usize, b as usize);
                if a != i && a != j && b != i && b != j {
                    pair_dups += 1;
                    if pair_dups < 5 {
                        kv(cx, "four-feature-collision", format!("{} ^ {} == {} ^ {}", s[i].0, s[j].0, s[a].0, s[b].0));
                    }
                }
            } else {
                pairs.insert(x, (i as u32, j as u32));
            }
        }
    }
    cx.evals((n * n / 2) as u64);
    cx.count_n("pair_xors_checked", pairs.len() as u64);
    // king moves: delta = KR[a] ^ KR[b]
    let mut deltas: [Vec<(u64, usize, usize)>; 2] = [Vec::new(), Vec::new()];
    for c in 0..2 {
        for a in 0..64 {
            for b in (a + 1)..64 {
                if let (Some(ka), Some(kb)) = (keys.king_rel[c][a], keys.king_rel[c][b]) {
                    let d = ka ^ kb;
                    deltas[c].push((d, a, b));
                    cx.eval();
                    let cname = if c == 0 { "white" } else { "black" };
                    if d == 0 {
                        kv(cx, "king-move-zero-delta", format!("{} king on {} and on {} hash identically", cname, sq_name(a), sq_name(b)));
                    }
                    if let Some(&k) = by_val.get(&d) {
                        kv(cx, "king-move-equals-single-feature", format!("{} king {}<->{} == {}", cname, sq_name(a), sq_name(b), s[k].0));
                    }
                    if let Some(&(i, j)) = pairs.get(&d) {
                        kv(cx, "king-move-equals-two-features", format!("{} king {}<->{} == {} ^ {}", cname, sq_name(a), sq_name(b), s[i as usize].0, s[j as usize].0));
                    }
                }
            }
        }
    }
    let wset: HashMap<u64, (usize, usize)> = deltas[0].iter().map(|&(d, a, b)| (d, (a, b))).collect();
    for &(d, a, b) in &deltas[1] {
        cx.eval();
        if let Some(&(wa, wb)) = wset.get(&d) {
            kv(cx, "two-king-moves-collide", format!("white king {}<->{} and black king {}<->{} have the same delta", sq_name(wa), sq_name(wb), sq_name(a), sq_name(b)));
        }
    }
    cx.count_n("king_move_deltas_checked", (deltas[0].len() + deltas[1].len()) as u64);
}

/// Hook-assisted exhaustive check over the real key table (only when /repo is built with the
/// guarded accessor). Compares the recovered keys with the table and runs the same combination
/// checker over all 2*6*64 + 16 + 8 + 1 keys, including the ones the API cannot isolate.
#[cfg(feature = "hooks")]
pub fn hook_table_check(cx: &mut Cx, keys: &Keys) {
    let t = cozy_chess::__verif_zobrist_keys();
    let mut singles: Vec<(String, u64)> = Vec::new();
    for (ci_, cname) in [(0usize, "White"), (1usize, "Black")] {
        for (pi, pname) in ["Pawn", "Knight", "Bishop", "Rook", "Queen", "King"].iter().enumerate() {
            for s in 0..64 {
                singles.push((format!("{}-{}@{}", cname, pname, sq_name(s)), t.pieces[ci_][pi][s]));
            }
        }
        for f in 0..8 {
            singles.push((format!("{}-castle-file-{}", cname, (b'a' + f as u8) as char), t.castle_rights[ci_][f]));
        }
    }
    for f in 0..8 {
        singles.push((format!("ep-file-{}", (b'a' + f as u8) as char), t.en_passant[f]));
    }
    singles.push(("black-to-move".to_string(), t.black_to_move));
    // the recovered keys must be the table's keys
    let table: HashMap<&str, u64> = singles.iter().map(|(n, k)| (n.as_str(), *k)).collect();
    for (name, k) in &keys.singles {
        cx.eval();
        match table.get(name.as_str()) {
            Some(tk) if tk == k => cx.count("recovered_keys_equal_to_table"),
            Some(tk) => kv(cx, "recovered-key-differs-from-table", format!("{}: recovered {:#x}, table {:#x}", name, k, tk)),
            None => {}
        }
    }
    let all = Keys { singles, king_rel: [vec![None; 64], vec![None; 64]] };
    check_combinations(cx, &all);
    cx.count("hook_table_checked");
}

fn features(p: &RPos) -> Vec<(u8, u8, u8, u8)> {
    let mut v = Vec::new();
    for s in 0..64 {
        if let Some((c, pc)) = p.sq[s] {
            v.push((0, ci(c) as u8, pc as u8, s as u8));
        }
    }
    if p.stm == Color::Black {
        v.push((1, 0, 0, 0));
    }
    for c in 0..2 {
        for w in 0..2 {
            if let Some(f) = p.rights[c][w] {
                v.push((2, c as u8, w as u8, f));
            }
        }
    }
    if let Some(f) = p.ep {
        v.push((3, 0, 0, f));
    }
    v
}

pub fn feature_distance(a: &RPos, b: &RPos) -> usize {
    let (fa, fb) = (features(a), features(b));
    fa.iter().filter(|x| !fb.contains(x)).count() + fb.iter().filter(|x| !fa.contains(x)).count()
}

pub struct C11Direct;

impl BoardMonitor for C11Direct {
    fn on_board(&mut self, cx: &mut Cx, b: &Board, m: &RPos, ev: &Ev) {
        // moves along walks
        if let Some((pb, pm)) = ev.prev {
            cx.eval();
            let d = feature_distance(pm, m);
            match ev.kind {
                EvKind::Null => {
                    cx.count("null-moves-observed");
                    if pb.hash() == b.hash() {
                        board_violation(cx, "C11", "null-move-keeps-hash".to_string(), "a null move did not change the hash".to_string(), b, m, ev);
                    }
                }
                EvKind::Play => {
                    if (1..=4).contains(&d) {
                        cx.count_dyn(format!("moves-at-feature-distance-{}", d));
                        if pb.hash() == b.hash() {
                            let mk = ev.mv.map(|mv| move_kind(pm, mv)).unwrap_or("-");
                            board_violation(cx, "C11", format!("move-keeps-hash|{}|distance={}", mk, d), format!("a {} move (feature distance {}) did not change the hash", mk, d), b, m, ev);
                        }
                    }
                }
                _ => {}
            }
        }
        // random edited pairs at feature distance 1..4
        for _ in 0..3 {
            let mut q = m.clone();
            let edits = 1 + cx.rng.below(3);
            for _ in 0..edits {
                match cx.rng.below(7) {
                    0 | 1 => {
                        let s = cx.rng.usize(64);
                        if q.sq[s].is_none() {
                            let pc = *cx.rng.pick(&[Piece::Pawn, Piece::Knight, Piece::Bishop, Piece::Rook, Piece::Queen]);
                            if !(pc == Piece::Pawn && (s < 8 || s >= 56)) {
                                q.sq[s] = Some((if cx.rng.chance(1, 2) { Color::White } else { Color::Black }, pc));
                            }
                        }
                    }
                    2 | 3 => {
                        let s = cx.rng.usize(64);
                        if matches!(q.sq[s], Some((_, pc)) if pc != Piece::King) {
                            q.sq[s] = None;
                        }
                    }
                    4 => q.stm = other(q.stm),
                    5 => {
                        let c = cx.rng.usize(2);
                        let w = cx.rng.usize(2);
                        if q.rights[c][w].is_some() {
                            q.rights[c][w] = None;
                        } else {
                            q.rights[c][w] = Some(cx.rng.below(8) as u8);
                        }
                    }
                    _ => {
                        q.ep = if q.ep.is_some() { None } else { Some(cx.rng.below(8) as u8) };
                    }
                }
            }
            let d = feature_distance(m, &q);
            if !(1..=4).contains(&d) {
                continue;
            }
            if let Ok(Ok(qb)) = build(&q) {
                cx.eval();
                cx.count_dyn(format!("edited-pairs-at-distance-{}", d));
                if qb.hash() == b.hash() {
                    board_violation(
                        cx,
                        "C11",
                        format!("edited-pair-collides|distance={}", d),
                        format!("'{}' and '{}' differ in {} features but have the same hash {:#x}", write_fen(m, true), write_fen(&q, true), d, b.hash()),
                        b,
                        m,
                        ev,
                    );
                }
                cx.distinct(mix(b.hash(), qb.hash()));
            }
        }
        // systematic single-feature additions on the board as it stands (played boards included):
        // every castling right that could validly be added, an EP file where one is backed, the
        // other side to move -- each must change the hash
        {
            let mut variants: Vec<(RPos, &'static str)> = Vec::new();
            for (c, col) in [(0usize, Color::White), (1usize, Color::Black)] {
                let br = rel_rank(col, 1);
                if let Some(k) = m.king_sq(col) {
                    if (k / 8) as i32 != br {
                        continue;
                    }
                    let kf = (k % 8) as i32;
                    for w in 0..2 {
                        if m.rights[c][w].is_some() {
                            continue;
                        }
                        let files: Vec<i32> = if w == 0 { (kf + 1..8).collect() } else { (0..kf).collect() };
                        for f in files {
                            if m.sq[idx(f, br)] == Some((col, Piece::Rook)) {
                                let mut q = m.clone();
                                q.rights[c][w] = Some(f as u8);
                                variants.push((q, "right-added"));
                            }
                        }
                    }
                }
            }
            if m.ep.is_none() {
                let them = other(m.stm);
                for f in 0..8i32 {
                    if m.sq[idx(f, rel_rank(them, 4))] == Some((them, Piece::Pawn)) && m.sq[idx(f, rel_rank(them, 3))].is_none() && m.sq[idx(f, rel_rank(them, 2))].is_none() {
                        let mut q = m.clone();
                        q.ep = Some(f as u8);
                        variants.push((q, "ep-added"));
                    }
                }
            }
            for (q, what) in variants {
                if let Ok(Ok(qb)) = build(&q) {
                    cx.eval();
                    cx.count_dyn(format!("systematic-pairs:{}", what));
                    if qb.hash() == b.hash() {
                        board_violation(
                            cx,
                            "C11",
                            format!("systematic-pair-collides|{}", what),
                            format!("'{}' and '{}' differ in one feature ({}) but have the same hash {:#x}", write_fen(m, true), write_fen(&q, true), what, b.hash()),
                            b,
                            m,
                            ev,
                        );
                    }
                }
            }
        }
        // castling-right variants: same placement, right moved to another colour / wing / file
        if cx.rng.chance(1, 8) {
            let p = gen::castle_case(&mut cx.rng);
            if let Ok(Ok(pb)) = build(&p) {
                let pm = RPos::observe(&pb);
                for c in 0..2 {
                    for w in 0..2 {
                        let mut q = pm.clone();
                        q.rights[c][w] = if q.rights[c][w].is_some() { None } else { continue };
                        if let Ok(Ok(qb)) = build(&q) {
                            cx.eval();
                            cx.count("castle-right-toggled-pairs");
                            if qb.hash() == pb.hash() {
                                board_violation(cx, "C11", "castle-right-not-in-hash".to_string(), format!("removing a castling right from '{}' keeps the hash", write_fen(&pm, true)), &pb, &pm, ev);
                            }
                        }
                    }
                }
            }
        }
        cx.sample(|| format!("edited pairs around {}", write_fen(m, true)));
    }
}
