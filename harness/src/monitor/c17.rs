//! C17 — a move batch iterates, counts and tests membership consistently.

use super::{move_index, piece_name, PROMOS};
use crate::refmodel::*;
use crate::runtime::*;
use cozy_chess::*;

const PROMO4: [Piece; 4] = [Piece::Knight, Piece::Bishop, Piece::Rook, Piece::Queen];

fn dest_sets(cx: &mut Cx, n_random: usize) -> Vec<(u64, &'static str)> {
    let r1: u64 = 0xFF;
    let r8: u64 = 0xFF << 56;
    let mut v: Vec<(u64, &'static str)> = vec![
        (0, "empty"),
        (!0, "full"),
        (r1, "rank1"),
        (r8, "rank8"),
        (r1 | r8, "both-promotion-ranks"),
        (!(r1 | r8), "no-promotion-rank"),
        (1, "a1"),
        (1 << 63, "h8"),
        (1 << 56, "a8"),
        (0x0100_0000_0000_0080, "a8+h1"),
        (0x0300_0000_0000_0000, "a8+b8"),
    ];
    for _ in 0..n_random {
        let x = match cx.rng.below(5) {
            0 => cx.rng.next_u64(),
            1 => cx.rng.sparse(3),
            2 => cx.rng.sparse(4) | (cx.rng.next_u64() & (r1 | r8) & cx.rng.next_u64()),
            3 => 1u64 << cx.rng.below(64),
            _ => (cx.rng.sparse(2)) & (r1 | r8 | 0xFF00 | (0xFF << 48)),
        };
        v.push((x, "random"));
    }
    v
}

pub fn check_batch(cx: &mut Cx, piece: Piece, from: usize, to: u64, class: &'static str) {
    let pm = PieceMoves { piece, from: Square::ALL[from], to: BitBoard(to) };
    let argv = vec!["c17".to_string(), (piece as usize).to_string(), from.to_string(), format!("{:#x}", to)];
    let desc = format!("PieceMoves{{{:?}, {}, {:#018x}}}", piece, sq_name(from), to);
    // expected enumeration from the statement
    let mut want: Vec<RMove> = Vec::new();
    for t in 0..64 {
        if (to >> t) & 1 == 1 {
            let promo = piece == Piece::Pawn && (t / 8 == 0 || t / 8 == 7);
            if promo {
                for p in PROMO4 {
                    want.push(RMove { from: from as u8, to: t as u8, promo: Some(p) });
                }
            } else {
                want.push(RMove { from: from as u8, to: t as u8, promo: None });
            }
        }
    }
    let mut want_sorted = want.clone();
    want_sorted.sort();
    cx.eval();
    // iteration + remaining length at every step
    let r = guard(|| {
        let mut it = pm.into_iter();
        let mut out = Vec::new();
        let mut lens = vec![it.len()];
        let mut hints = vec![it.size_hint()];
        let mut guard_n = 0;
        while let Some(m) = it.next() {
            out.push(RMove::of(m));
            lens.push(it.len());
            hints.push(it.size_hint());
            guard_n += 1;
            if guard_n > 400 {
                break;
            }
        }
        let after_end = it.next().is_none();
        (out, lens, hints, after_end)
    });
    let (out, lens, hints, after_end) = match r {
        Ok(x) => x,
        Err(e) => {
            cx.violation(format!("C17|panic|iteration|piece={}", piece_name(Some(piece))), format!("iterating {} panicked: {}", desc, e), desc.clone(), argv.clone());
            return;
        }
    };
    let mut got_sorted = out.clone();
    got_sorted.sort();
    let dup = got_sorted.windows(2).any(|w| w[0] == w[1]);
    if got_sorted != want_sorted {
        cx.violation(
            format!("C17|iteration|piece={}|{}|duplicates={}", piece_name(Some(piece)), class, dup),
            format!("iterating {} yields [{}], expected (as a set) [{}]", desc, out.iter().map(|m| m.text()).collect::<Vec<_>>().join(" "), want.iter().map(|m| m.text()).collect::<Vec<_>>().join(" ")),
            desc.clone(),
            argv.clone(),
        );
    }
    if !after_end {
        cx.violation("C17|iterator-not-fused-at-end".to_string(), format!("{}: next() after None yielded a move", desc), desc.clone(), argv.clone());
    }
    for (k, &l) in lens.iter().enumerate() {
        let remaining = out.len().saturating_sub(k);
        if l != remaining || hints[k] != (remaining, Some(remaining)) {
            cx.violation(
                format!("C17|iterator-len|piece={}|{}", piece_name(Some(piece)), class),
                format!("{}: after {} next() calls len() = {} / size_hint {:?}, but {} moves remain", desc, k, l, hints[k], remaining),
                desc.clone(),
                argv.clone(),
            );
            break;
        }
    }
    // the other ways of driving an Iterator must agree with repeated next(): after k calls of next(),
    // count(), a fold-based drain, last() and nth(n) (also past the end) see exactly the rest
    let reference = out.clone();
    let total = reference.len();
    let mut ks: Vec<usize> = vec![0, 1, 2, 3, 4, 5];
    ks.push(total / 2);
    ks.push(total.saturating_sub(1));
    ks.push(total);
    ks.sort();
    ks.dedup();
    for &k in ks.iter().filter(|&&k| k <= total) {
        let r = guard(|| {
            let mk = || {
                let mut it = pm.into_iter();
                for _ in 0..k {
                    it.next();
                }
                it
            };
            let cnt = mk().count();
            let drained: Vec<RMove> = mk().fold(Vec::new(), |mut v, m| {
                v.push(RMove::of(m));
                v
            });
            let mut fe: Vec<RMove> = Vec::new();
            mk().for_each(|m| fe.push(RMove::of(m)));
            let last = mk().last().map(RMove::of);
            let rem = total - k;
            let mut nths: Vec<(usize, Option<RMove>, usize)> = Vec::new();
            for n in [0usize, 1, 2, rem.saturating_sub(1), rem, rem + 1, rem + 3, 63, 64, 65, 255, 256, 1 << 32, usize::MAX] {
                let mut it = mk();
                let got = it.nth(n).map(RMove::of);
                nths.push((n, got, it.len()));
            }
            let skipped: Vec<RMove> = mk().skip(1).map(RMove::of).collect();
            (cnt, drained, fe, last, nths, skipped)
        });
        match r {
            Ok((cnt, drained, fe, last, nths, skipped)) => {
                let rest: Vec<RMove> = reference[k..].to_vec();
                let mut rs = rest.clone();
                rs.sort();
                let mut ds = drained.clone();
                ds.sort();
                let mut fs = fe.clone();
                fs.sort();
                if cnt != rest.len() {
                    cx.violation(format!("C17|count-after-next|piece={}|{}", piece_name(Some(piece)), class), format!("{}: after {} next() calls count() = {}, but {} moves remain", desc, k, cnt, rest.len()), desc.clone(), argv.clone());
                }
                if ds != rs || fs != rs {
                    cx.violation(
                        format!("C17|fold-drain-after-next|piece={}|{}", piece_name(Some(piece)), class),
                        format!("{}: after {} next() calls a fold/for_each drain yields [{}], the remaining moves are [{}]", desc, k, drained.iter().map(|m| m.text()).collect::<Vec<_>>().join(" "), rest.iter().map(|m| m.text()).collect::<Vec<_>>().join(" ")),
                        desc.clone(),
                        argv.clone(),
                    );
                }
                // last(): some remaining move when any remain (order within a promotion group is free,
                // so only membership and emptiness are required)
                if last.is_some() != !rest.is_empty() || last.map_or(false, |m| !rest.contains(&m)) {
                    cx.violation(format!("C17|last-after-next|piece={}", piece_name(Some(piece))), format!("{}: after {} next() calls last() = {:?}", desc, k, last.map(|m| m.text())), desc.clone(), argv.clone());
                }
                for (n, got, len_after) in nths {
                    let want_some = n < rest.len();
                    let want_len = rest.len().saturating_sub(n.saturating_add(1));
                    if got.is_some() != want_some || got.map_or(false, |m| !rest.contains(&m)) || len_after != want_len {
                        cx.violation(
                            format!("C17|nth-after-next|piece={}|past-end={}", piece_name(Some(piece)), !want_some),
                            format!("{}: after {} next() calls nth({}) = {:?} leaving len {} (remaining before: {})", desc, k, n, got.map(|m| m.text()), len_after, rest.len()),
                            desc.clone(),
                            argv.clone(),
                        );
                    }
                }
                if skipped.len() != rest.len().saturating_sub(1) {
                    cx.violation(format!("C17|skip-after-next|piece={}", piece_name(Some(piece))), format!("{}: after {} next() calls skip(1) yields {} moves, expected {}", desc, k, skipped.len(), rest.len().saturating_sub(1)), desc.clone(), argv.clone());
                }
            }
            Err(e) => {
                cx.violation(format!("C17|panic|iterator-adaptors|piece={}", piece_name(Some(piece))), format!("{}: count/fold/last/nth/skip after {} next() calls panicked: {}", desc, k, e), desc.clone(), argv.clone());
            }
        }
        cx.evals(12);
    }
    match guard(|| (pm.len(), pm.is_empty())) {
        Ok((l, e)) => {
            if l != want.len() {
                cx.violation(format!("C17|len|piece={}|{}", piece_name(Some(piece)), class), format!("{}.len() = {}, enumeration has {}", desc, l, want.len()), desc.clone(), argv.clone());
            }
            if e != want.is_empty() {
                cx.violation(format!("C17|is_empty|piece={}", piece_name(Some(piece))), format!("{}.is_empty() = {}, enumeration has {}", desc, e, want.len()), desc.clone(), argv.clone());
            }
        }
        Err(e) => cx.violation("C17|panic|len".to_string(), format!("len/is_empty panicked: {}", e), desc.clone(), argv.clone()),
    }
    // membership: all 448 moves with that origin + moves from other origins
    let mut member = vec![false; 28672];
    for m in &want {
        member[move_index(m.lib())] = true;
    }
    let mut queries: Vec<Move> = Vec::with_capacity(700);
    for t in 0..64 {
        for p in PROMOS {
            queries.push(Move { from: Square::ALL[from], to: Square::ALL[t], promotion: p });
        }
    }
    for _ in 0..32 {
        let of = cx.rng.usize(64);
        let t = if cx.rng.chance(1, 2) && to != 0 {
            // a destination that is in the set
            let members: Vec<usize> = (0..64).filter(|&i| (to >> i) & 1 == 1).collect();
            *cx.rng.pick(&members)
        } else {
            cx.rng.usize(64)
        };
        for p in PROMOS {
            queries.push(Move { from: Square::ALL[of], to: Square::ALL[t], promotion: p });
        }
    }
    cx.evals(queries.len() as u64);
    for q in queries {
        let want_has = member[move_index(q)];
        match guard(|| pm.has(q)) {
            Ok(h) => {
                if h != want_has {
                    let to_promo_rank = (q.to as usize) / 8 == 0 || (q.to as usize) / 8 == 7;
                    cx.violation(
                        format!(
                            "C17|has|piece={}|to-promotion-rank={}|promotion={}|same-origin={}|expected={}|got={}",
                            piece_name(Some(piece)),
                            to_promo_rank,
                            piece_name(q.promotion),
                            q.from as usize == from,
                            want_has,
                            h
                        ),
                        format!("{}.has({}) = {} but iteration {} that move", desc, RMove::of(q).text(), h, if want_has { "yields" } else { "never yields" }),
                        desc.clone(),
                        argv.clone(),
                    );
                }
            }
            Err(e) => cx.violation("C17|panic|has".to_string(), format!("has panicked: {}", e), desc.clone(), argv.clone()),
        }
    }
    cx.count_dyn(format!("batches:{}", piece_name(Some(piece))));
    if piece == Piece::Pawn && to & (0xFF | (0xFF << 56)) != 0 {
        cx.count("pawn-batches-with-promotion-destinations");
        if to & !(0xFFu64 | (0xFF << 56)) != 0 {
            cx.count("pawn-batches-mixing-promotion-and-plain");
        }
    }
    cx.distinct(mix(mix(piece as u64, from as u64), to));
}

pub fn run(cfg: &Cfg) -> Result<Outcome, String> {
    let stats = run_sharded(cfg, |cx| {
        let n_random = if cx.miri { 1 } else if cx.is_thorough() { 6000 } else { 600 };
        let origins: Vec<usize> = if cx.miri { vec![8, 52] } else { cx.mine(64) };
        for from in origins {
            for piece in Piece::ALL {
                for (to, class) in dest_sets(cx, n_random) {
                    check_batch(cx, piece, from, to, class);
                }
            }
        }
        cx.sample(|| "PieceMoves{Pawn, a7, {a8,b8}} -> a7a8n a7a8b a7a8r a7a8q a7b8n a7b8b a7b8r a7b8q; has(a7a8k) must be false".to_string());
    })?;
    Ok(Outcome {
        stats,
        rule: "all 6 pieces x 64 origins x destination sets (empty, full, promotion ranks, corners, mixed, random); per batch: iteration as a set, len, is_empty, iterator len after every next(), has() for all 448 moves from the origin + 224 from other origins; distinct = (piece, origin, destination set)".to_string(),
        floors: vec![Floor { counter: "pawn-batches-mixing-promotion-and-plain", at_least: 64 }],
        exhaustive: false,
        exhaustive_note: "exhaustive over pieces, origins and the 448 same-origin queries per batch; destination sets sampled".to_string(),
        inconclusive: None,
    })
}
