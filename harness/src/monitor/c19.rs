//! C19 — coordinates and their text forms are total, exact inverses in every build.

use super::piece_name;
use crate::refmodel::*;
use crate::runtime::*;
use crate::workload::text::*;
use cozy_chess::*;
use std::fmt::Display;
use std::str::FromStr;

fn viol(cx: &mut Cx, sig: String, what: String, argv: Vec<String>) {
    cx.violation(format!("C19|{}", sig), what.clone(), format!("{} profile={}", what, PROFILE), argv);
}

fn offsets(cx: &mut Cx) {
    // all 64 x 256 x 256 arguments, sharded by square
    let squares: Vec<usize> = if cx.miri { vec![0, 63] } else { cx.mine(64) };
    let step: usize = if cx.miri { 17 } else { 1 };
    for s in squares {
        let (f, r) = fr(s);
        let sq = Square::ALL[s];
        for df in (i8::MIN..=i8::MAX).step_by(step) {
            for dr in (i8::MIN..=i8::MAX).step_by(step) {
                let (nf, nr) = (f + df as i32, r + dr as i32);
                let want = if on(nf, nr) { Some(idx(nf, nr)) } else { None };
                match guard(|| sq.try_offset(df, dr)) {
                    Ok(g) => {
                        if g.map(|x| x as usize) != want {
                            viol(cx, "try_offset|wrong-result".to_string(), format!("{}.try_offset({}, {}) = {:?}, arithmetic gives {:?}", sq_name(s), df, dr, g, want.map(sq_name)), vec!["c19-offset".into(), s.to_string(), df.to_string(), dr.to_string()]);
                        }
                    }
                    Err(e) => {
                        let class = if e.contains("overflow") { "overflow" } else { "other" };
                        viol(
                            cx,
                            format!("try_offset|panic|{}", class),
                            format!("{}.try_offset({}, {}) panicked: {}", sq_name(s), df, dr, e),
                            vec!["c19-offset".into(), s.to_string(), df.to_string(), dr.to_string()],
                        );
                    }
                }
                // the panicking variant: sampled densely near the board, sparsely elsewhere (panics are slow)
                let near = (-9..=9).contains(&df) && (-9..=9).contains(&dr);
                if near || (df as i32 * 31 + dr as i32 * 17 + s as i32) % 97 == 0 {
                    match (guard(|| sq.offset(df, dr)), want) {
                        (Ok(g), Some(w)) => {
                            if g as usize != w {
                                viol(cx, "offset|wrong-result".to_string(), format!("{}.offset({}, {}) = {}", sq_name(s), df, dr, sq_name(g as usize)), vec!["c19-offset".into(), s.to_string(), df.to_string(), dr.to_string()]);
                            }
                        }
                        (Ok(g), None) => viol(cx, "offset|no-panic-out-of-range".to_string(), format!("{}.offset({}, {}) returned {} instead of panicking", sq_name(s), df, dr, sq_name(g as usize)), vec!["c19-offset".into(), s.to_string(), df.to_string(), dr.to_string()]),
                        (Err(e), Some(_)) => viol(cx, "offset|panic-in-range".to_string(), format!("{}.offset({}, {}) panicked: {}", sq_name(s), df, dr, e), vec!["c19-offset".into(), s.to_string(), df.to_string(), dr.to_string()]),
                        (Err(_), None) => {}
                    }
                    cx.count("offset_calls");
                }
            }
        }
        let per_axis = (256 + step - 1) / step;
        cx.evals((per_axis * per_axis) as u64);
        cx.count_n("try_offset_triples", (per_axis * per_axis) as u64);
    }
}

fn coordinates(cx: &mut Cx) {
    for s in 0..64usize {
        cx.eval();
        let (f, r) = fr(s);
        let sq = Square::ALL[s];
        let ok = guard(|| {
            let mut bad: Vec<&'static str> = Vec::new();
            if Square::new(File::ALL[f as usize], Rank::ALL[r as usize]) != sq {
                bad.push("Square::new");
            }
            if sq.file() as usize != f as usize || sq.rank() as usize != r as usize {
                bad.push("file/rank");
            }
            if sq.flip_file() as usize != idx(7 - f, r) {
                bad.push("flip_file");
            }
            if sq.flip_rank() as usize != idx(f, 7 - r) {
                bad.push("flip_rank");
            }
            if sq.relative_to(Color::White) != sq || sq.relative_to(Color::Black) as usize != idx(f, 7 - r) {
                bad.push("relative_to");
            }
            if Square::try_index(s) != Some(sq) || Square::index(s) != sq || Square::index_const(s) != sq || sq as usize != s {
                bad.push("index");
            }
            if sq.bitboard().0 != 1u64 << s {
                bad.push("bitboard");
            }
            bad
        });
        match ok {
            Ok(bad) => {
                for b in bad {
                    viol(cx, format!("square|{}", b), format!("{} disagrees with coordinate arithmetic on {}", b, sq_name(s)), vec!["none".into()]);
                }
            }
            Err(e) => viol(cx, "square|panic".to_string(), format!("panicked on {}: {}", sq_name(s), e), vec!["none".into()]),
        }
    }
    for i in 0..8usize {
        cx.eval();
        let r = guard(|| {
            let mut bad: Vec<&'static str> = Vec::new();
            let (fl, rk) = (File::ALL[i], Rank::ALL[i]);
            if fl.flip() as usize != 7 - i || rk.flip() as usize != 7 - i {
                bad.push("flip");
            }
            if rk.relative_to(Color::White) != rk || rk.relative_to(Color::Black) as usize != 7 - i {
                bad.push("Rank::relative_to");
            }
            if File::try_index(i) != Some(fl) || Rank::try_index(i) != Some(rk) || File::index(i) != fl || Rank::index(i) != rk {
                bad.push("index");
            }
            let want_adj: u64 = (0..64).filter(|&s| ((s % 8) as i32 - i as i32).abs() == 1).map(|s| 1u64 << s).sum();
            if fl.adjacent().0 != want_adj {
                bad.push("File::adjacent");
            }
            bad
        });
        match r {
            Ok(bad) => {
                for b in bad {
                    viol(cx, format!("file-rank|{}", b), format!("{} disagrees with coordinate arithmetic on index {}", b, i), vec!["none".into()]);
                }
            }
            Err(e) => viol(cx, "file-rank|panic".to_string(), format!("panicked: {}", e), vec!["none".into()]),
        }
    }
    for i in [8usize, 9, 63, 64, 65, 255, 256, usize::MAX] {
        cx.eval();
        let want_sq = if i < 64 { Some(i) } else { None };
        match guard(|| (Square::try_index(i), File::try_index(i), Rank::try_index(i), Piece::try_index(i), Color::try_index(i))) {
            Ok((a, b, c, d, e)) => {
                if a.map(|x| x as usize) != want_sq || b.is_some() != (i < 8) || c.is_some() != (i < 8) || d.is_some() != (i < 6) || e.is_some() != (i < 2) {
                    viol(cx, "try_index|range".to_string(), format!("try_index({}) accepted an out-of-range index or refused a valid one", i), vec!["none".into()]);
                }
            }
            Err(e) => viol(cx, "try_index|panic".to_string(), format!("try_index({}) panicked: {}", i, e), vec!["none".into()]),
        }
        if i >= 64 {
            if guard(|| Square::index(i)).is_ok() {
                viol(cx, "index|no-panic".to_string(), format!("Square::index({}) did not panic", i), vec!["none".into()]);
            }
        }
    }
}

/// parse(s) = Ok(v) => format(v) == s ; and no panic.
fn parse_law<T: FromStr + Display>(cx: &mut Cx, ty: &'static str, s: &str) -> Option<T> {
    cx.eval();
    match guard(|| s.parse::<T>().ok().map(|v| (v.to_string(), v))) {
        Ok(Some((back, v))) => {
            if back != s {
                let class = if s.starts_with(&back) { "trailing-text-ignored" } else { "other" };
                viol(
                    cx,
                    format!("parse-accepts-non-canonical|{}|{}", ty, class),
                    format!("{}::from_str({:?}) is accepted but formats back as {:?}", ty, s, back),
                    vec!["c19-text".into(), ty.into(), crate::hex(s)],
                );
            }
            cx.count_dyn(format!("accepted:{}", ty));
            Some(v)
        }
        Ok(None) => None,
        Err(e) => {
            viol(cx, format!("parse-panic|{}", ty), format!("{}::from_str({:?}) panicked: {}", ty, s, e), vec!["c19-text".into(), ty.into(), crate::hex(s)]);
            None
        }
    }
}

pub fn text_one(cx: &mut Cx, ty: &str, s: &str) {
    match ty {
        "Square" => {
            parse_law::<Square>(cx, "Square", s);
        }
        "File" => {
            parse_law::<File>(cx, "File", s);
        }
        "Rank" => {
            parse_law::<Rank>(cx, "Rank", s);
        }
        "Piece" => {
            parse_law::<Piece>(cx, "Piece", s);
        }
        "Color" => {
            parse_law::<Color>(cx, "Color", s);
        }
        _ => {
            parse_law::<Move>(cx, "Move", s);
        }
    }
}

fn all_types(cx: &mut Cx, s: &str) {
    for ty in ["Square", "File", "Rank", "Piece", "Color", "Move"] {
        text_one(cx, ty, s);
    }
}

fn format_then_parse(cx: &mut Cx) {
    fn rt<T: FromStr + Display + PartialEq + Copy>(cx: &mut Cx, ty: &'static str, v: T, want_text: String) {
        cx.eval();
        match guard(|| {
            let t = v.to_string();
            let back = t.parse::<T>().ok();
            (t, back)
        }) {
            Ok((t, back)) => {
                if t != want_text {
                    viol(cx, format!("format|{}", ty), format!("{} formats as {:?}, expected {:?}", ty, t, want_text), vec!["none".into()]);
                }
                if back != Some(v) {
                    viol(cx, format!("format-then-parse|{}", ty), format!("{} value with text {:?} does not survive format-then-parse", ty, t), vec!["c19-text".into(), ty.into(), crate::hex(&t)]);
                }
            }
            Err(e) => viol(cx, format!("format-panic|{}", ty), format!("formatting/parsing a {} panicked: {}", ty, e), vec!["none".into()]),
        }
    }
    for s in 0..64 {
        rt(cx, "Square", Square::ALL[s], sq_name(s));
    }
    for i in 0..8 {
        rt(cx, "File", File::ALL[i], ((b'a' + i as u8) as char).to_string());
        rt(cx, "Rank", Rank::ALL[i], ((b'1' + i as u8) as char).to_string());
    }
    for p in Piece::ALL {
        rt(cx, "Piece", p, piece_letter(p).to_string());
    }
    rt(cx, "Color", Color::White, "w".to_string());
    rt(cx, "Color", Color::Black, "b".to_string());
    for f in 0..64 {
        for t in 0..64 {
            for p in [None, Some(Piece::Knight), Some(Piece::Bishop), Some(Piece::Rook), Some(Piece::Queen)] {
                let m = RMove { from: f as u8, to: t as u8, promo: p };
                rt(cx, "Move", m.lib(), m.text());
            }
        }
    }
    // illegal-shape moves still format without panicking
    for p in [Some(Piece::King), Some(Piece::Pawn)] {
        cx.eval();
        let m = Move { from: Square::E7, to: Square::E8, promotion: p };
        if let Err(e) = guard(|| m.to_string()) {
            viol(cx, "format-panic|Move".to_string(), format!("formatting a move with promotion {} panicked: {}", piece_name(p), e), vec!["none".into()]);
        }
    }
}

fn strings(cx: &mut Cx) {
    // exhaustive short strings over a focused alphabet (shard 0..n split by first char)
    let alphabet: Vec<char> = "abh18w kpnqrQK0 9ié-+".chars().collect();
    let max_len = 3;
    if cx.shard < alphabet.len() + 1 && !cx.miri {
        // shard k handles strings starting with alphabet[k-1]; shard 0 the empty string
        let mut count = 0u64;
        let my: Vec<usize> = (0..alphabet.len()).filter(|i| i % cx.shards == cx.shard).collect();
        if cx.shard == 0 {
            all_types(cx, "");
        }
        for i in my {
            let mut f = |t: &str| {
                let s = format!("{}{}", alphabet[i], t);
                count += 1;
                all_types(cx, &s);
            };
            for_all_strings(&alphabet, max_len - 1, &mut f);
        }
        cx.count_n("exhaustive_short_strings", count);
    }
    // every single-character look-alike substitution (same low byte, full-width, Unicode digits,
    // case-mapping relatives, other case) of canonical texts of every type
    if cx.shard == 0 && !cx.miri {
        let mut texts: Vec<String> = Vec::new();
        for s in 0..64 {
            texts.push(sq_name(s));
        }
        for c in "abcdefgh12345678pnbrqkwb".chars() {
            texts.push(c.to_string());
        }
        for (f, t) in [(12usize, 28usize), (52, 60), (6, 21), (0, 63), (48, 57)] {
            for p in [None, Some(Piece::Knight), Some(Piece::Queen)] {
                texts.push(RMove { from: f as u8, to: t as u8, promo: p }.text());
            }
        }
        let mut subs: Vec<String> = Vec::new();
        for t in &texts {
            for_all_alias_substitutions(t, &mut |u| subs.push(u.to_string()));
        }
        for u in subs {
            all_types(cx, &u);
            cx.count("alias_substituted_texts");
        }
    }
    // move-shaped strings: every canonical move text with every one-character suffix / edit
    let tail: Vec<char> = "nbrqkpNBRQKP18ah x=+#é\u{301}0".chars().collect();
    let n_moves = if cx.miri { 40 } else { cx.budget(4_000_000, 100_000_000) };
    for _ in 0..n_moves {
        let f = cx.rng.usize(64);
        let t = cx.rng.usize(64);
        let p = *cx.rng.pick(&[None, None, Some(Piece::Knight), Some(Piece::Bishop), Some(Piece::Rook), Some(Piece::Queen)]);
        let base = RMove { from: f as u8, to: t as u8, promo: p }.text();
        let s = match cx.rng.below(7) {
            6 => alias_substitution(&mut cx.rng, &base),
            0 => format!("{}{}", base, cx.rng.pick(&tail)),
            1 => format!("{}{}{}", base, cx.rng.pick(&tail), cx.rng.pick(&tail)),
            2 => base.to_ascii_uppercase(),
            3 => mutate(&mut cx.rng, &base, &tail),
            4 => format!("{}{}", &base[..4], cx.rng.pick(&['k', 'p', 'K', 'P', 'n', 'q'])),
            _ => mutate_n(&mut cx.rng, &base, &tail, 2),
        };
        all_types(cx, &s);
        cx.distinct(fnv(s.as_bytes()));
        cx.count("move_shaped_strings");
    }
    // canonical texts of the small types with edits, and random unicode
    let n_rand = if cx.miri { 40 } else { cx.budget(4_000_000, 100_000_000) };
    for i in 0..n_rand {
        let s = match i % 5 {
            0 => random_unicode(&mut cx.rng, 6),
            1 => random_string(&mut cx.rng, &tail, 6),
            2 => {
                let b = sq_name(cx.rng.usize(64));
                mutate(&mut cx.rng, &b, &tail)
            }
            3 => format!("{}{}", *cx.rng.pick(&tail), random_char(&mut cx.rng)),
            _ => {
                let b = RMove { from: cx.rng.below(64) as u8, to: cx.rng.below(64) as u8, promo: None }.text();
                let c = random_char(&mut cx.rng);
                format!("{}{}", b, c)
            }
        };
        all_types(cx, &s);
        cx.distinct(fnv(s.as_bytes()));
        cx.count("random_strings");
    }
}

pub fn run(cfg: &Cfg) -> Result<Outcome, String> {
    let stats = run_sharded(cfg, |cx| {
        offsets(cx);
        if cx.shard == 0 {
            coordinates(cx);
            if !cx.miri {
                format_then_parse(cx);
            }
        }
        strings(cx);
        cx.sample(|| "H8.try_offset(127, 0) must be None (not a panic); \"e7e8k\" must not parse to a move that formats as \"e7e8\"".to_string());
    })?;
    Ok(Outcome {
        stats,
        rule: format!(
            "profile {}: try_offset for all 64x256x256 arguments against i32 arithmetic; offset on all near-board and a sample of far arguments; all coordinate functions on all values; format->parse for all values (moves: 64x64x5); for the six parsers: all strings of length <= 3 over a 21-character alphabet, move texts with suffixes/edits, random Unicode: no panic and parse(s)=Ok(v) => format(v)==s; distinct = distinct generated strings",
            PROFILE
        ),
        floors: vec![Floor { counter: "try_offset_triples", at_least: 4_194_304 }, Floor { counter: "exhaustive_short_strings", at_least: 9000 }, Floor { counter: "alias_substituted_texts", at_least: 3000 }],
        exhaustive: false,
        exhaustive_note: "exhaustive: try_offset domain, coordinate functions, format->parse of all values, strings of length <= 3 over the focused alphabet; sampled: longer and Unicode strings".to_string(),
        inconclusive: None,
    })
}
