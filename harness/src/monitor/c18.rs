//! C18 — bitboards behave as sets of squares.

use crate::refmodel::geom::SetModel;
use crate::refmodel::*;
use crate::runtime::*;
use cozy_chess::*;

fn v(cx: &mut Cx, sig: &str, what: String, a: u64, b: u64) {
    cx.violation(format!("C18|{}", sig), what.clone(), format!("{} a={:#018x} b={:#018x} profile={}", what, a, b, PROFILE), vec!["c18".to_string(), format!("{:#x}", a), format!("{:#x}", b)]);
}

pub fn check_pair(cx: &mut Cx, a: u64, b: u64) {
    cx.eval();
    let (ma, mb) = (SetModel::from_u64(a), SetModel::from_u64(b));
    let (ba, bb) = (BitBoard(a), BitBoard(b));
    let r = guard(|| {
        let errs: std::cell::RefCell<Vec<(&'static str, String)>> = std::cell::RefCell::new(Vec::new());
        let chk = |name: &'static str, got: u64, want: u64| {
            if got != want {
                errs.borrow_mut().push((name, format!("{}: got {:#018x} want {:#018x}", name, got, want)));
            }
        };
        chk("union", (ba | bb).0, ma.map2(&mb, |x, y| x || y).to_u64());
        chk("intersection", (ba & bb).0, ma.map2(&mb, |x, y| x && y).to_u64());
        chk("symmetric-difference", (ba ^ bb).0, ma.map2(&mb, |x, y| x != y).to_u64());
        chk("difference", (ba - bb).0, ma.map2(&mb, |x, y| x && !y).to_u64());
        chk("complement", (!ba).0, ma.map2(&ma, |x, _| !x).to_u64());
        let mut t = ba;
        t |= bb;
        chk("union-assign", t.0, ma.map2(&mb, |x, y| x || y).to_u64());
        let mut t = ba;
        t &= bb;
        chk("intersection-assign", t.0, ma.map2(&mb, |x, y| x && y).to_u64());
        let mut t = ba;
        t ^= bb;
        chk("symmetric-difference-assign", t.0, ma.map2(&mb, |x, y| x != y).to_u64());
        let mut t = ba;
        t -= bb;
        chk("difference-assign", t.0, ma.map2(&mb, |x, y| x && !y).to_u64());
        let chkb = |name: &'static str, got: bool, want: bool| {
            if got != want {
                errs.borrow_mut().push((name, format!("{}: got {} want {}", name, got, want)));
            }
        };
        chkb("is_subset", ba.is_subset(bb), (0..64).all(|i| !ma.0[i] || mb.0[i]));
        chkb("is_superset", ba.is_superset(bb), (0..64).all(|i| !mb.0[i] || ma.0[i]));
        chkb("is_disjoint", ba.is_disjoint(bb), (0..64).all(|i| !(ma.0[i] && mb.0[i])));
        chkb("is_empty", ba.is_empty(), ma.len() == 0);
        chkb("len", ba.len() as usize == ma.len(), true);
        for i in 0..64 {
            if ba.has(Square::ALL[i]) != ma.0[i] {
                errs.borrow_mut().push(("has", format!("has({}) = {}", sq_name(i), ba.has(Square::ALL[i]))));
                break;
            }
        }
        let members = ma.members();
        chkb("next_square", ba.next_square().map(|s| s as usize) == members.first().copied(), true);
        // iteration: ascending, exact remaining length at every step
        let mut it = ba.iter();
        let mut got = Vec::new();
        let mut ok_len = it.len() == members.len() && it.size_hint() == (members.len(), Some(members.len()));
        while let Some(s) = it.next() {
            got.push(s as usize);
            let rem = members.len().saturating_sub(got.len());
            ok_len &= it.len() == rem && it.size_hint() == (rem, Some(rem));
            if got.len() > 64 {
                break;
            }
        }
        chkb("iteration-members-ascending", got == members, true);
        for k in [0usize, 1, members.len() / 2, members.len()] {
            if k > members.len() {
                continue;
            }
            let mk = || {
                let mut it = ba.iter();
                for _ in 0..k {
                    it.next();
                }
                it
            };
            let rest = &members[k..];
            chkb("iter-count-after-next", mk().count() == rest.len(), true);
            let folded: Vec<usize> = mk().fold(Vec::new(), |mut v, s| {
                v.push(s as usize);
                v
            });
            chkb("iter-fold-after-next", folded == rest, true);
            chkb("iter-skip-64-after-next", mk().skip(64).next().is_none() && mk().skip(usize::MAX).next().is_none(), true);
            let stepped: Vec<usize> = mk().step_by(65).map(|s| s as usize).collect();
            chkb("iter-step_by-65-after-next", stepped == rest.iter().take(1).copied().collect::<Vec<_>>(), true);
            chkb("iter-last-after-next", mk().last().map(|s| s as usize) == rest.last().copied(), true);
            for n in [0usize, 1, rest.len().saturating_sub(1), rest.len(), rest.len() + 2, 63, 64, 65, 127, 128, 1 << 32, usize::MAX] {
                let mut it = mk();
                let g = it.nth(n).map(|s| s as usize);
                chkb("iter-nth-after-next", g == rest.get(n).copied() && it.len() == rest.len().saturating_sub(n.saturating_add(1)), true);
            }
        }
        chkb("iteration-remaining-length", ok_len, true);
        let got2: Vec<usize> = ba.into_iter().map(|s| s as usize).collect();
        chkb("into_iter", got2 == members, true);
        // collecting squares builds their set (order and repetition must not matter)
        let mut sq: Vec<Square> = members.iter().map(|&i| Square::ALL[i]).collect();
        sq.reverse();
        if let Some(&f) = sq.first() {
            sq.push(f);
        }
        let coll: BitBoard = sq.into_iter().collect();
        chk("from_iter", coll.0, a);
        // a long input: many repetitions first, new squares only after more than 64 items
        if let Some(&first) = members.first() {
            let long: Vec<Square> = std::iter::repeat(Square::ALL[first]).take(70).chain(members.iter().rev().map(|&i| Square::ALL[i])).collect();
            let coll2: BitBoard = long.into_iter().collect();
            chk("from_iter-long-input", coll2.0, a);
        }
        let none: BitBoard = Vec::<Square>::new().into_iter().collect();
        chk("from_iter-empty-input", none.0, 0);
        // flips: involutions that move each member to its mirrored square
        let fr_ = ba.flip_ranks();
        let ff_ = ba.flip_files();
        let mut wr = [false; 64];
        let mut wf = [false; 64];
        for &i in &members {
            let (f, r) = fr(i);
            wr[idx(f, 7 - r)] = true;
            wf[idx(7 - f, r)] = true;
        }
        chk("flip_ranks", fr_.0, SetModel(wr).to_u64());
        chk("flip_files", ff_.0, SetModel(wf).to_u64());
        chk("flip_ranks-involution", fr_.flip_ranks().0, a);
        chk("flip_files-involution", ff_.flip_files().0, a);
        errs.into_inner()
    });
    match r {
        Ok(errs) => {
            for (name, msg) in errs {
                v(cx, name, msg, a, b);
            }
        }
        Err(e) => v(cx, "panic", format!("panicked: {}", e), a, b),
    }
}

pub fn check_subsets(cx: &mut Cx, mask: u64) {
    cx.eval();
    let n = mask.count_ones();
    let r = guard(|| {
        let mut count: u64 = 0;
        let mut prev: Option<u64> = None;
        let mut err: Option<String> = None;
        for sub in BitBoard(mask).iter_subsets() {
            if sub.0 & !mask != 0 {
                err = Some(format!("yielded {:#x} which is not a subset", sub.0));
                break;
            }
            if let Some(p) = prev {
                if sub.0 <= p {
                    err = Some(format!("not strictly increasing: {:#x} after {:#x}", sub.0, p));
                    break;
                }
            } else if sub.0 != 0 {
                err = Some(format!("first subset is {:#x}, not the empty set", sub.0));
                break;
            }
            prev = Some(sub.0);
            count += 1;
            if count > (1u64 << n) {
                err = Some("more than 2^n subsets (does not terminate?)".to_string());
                break;
            }
        }
        if err.is_none() && count != (1u64 << n) {
            err = Some(format!("{} subsets yielded, expected {}", count, 1u64 << n));
        }
        if err.is_none() && prev != Some(mask) {
            err = Some(format!("last subset {:?} is not the full mask", prev));
        }
        err
    });
    match r {
        Ok(None) => {}
        Ok(Some(e)) => v(cx, "iter_subsets", format!("iter_subsets of {:#018x} ({} bits): {}", mask, n, e), mask, 0),
        Err(e) => v(cx, "panic|iter_subsets", format!("panicked: {}", e), mask, 0),
    }
    cx.count("subset-enumerations");
    cx.maximum("max_subset_mask_bits", n as u64);
}

/// For masks too large to enumerate: the first `n` subsets must be exactly the first `n` in numeric
/// order, i.e. the k-th subset is k's bits spread over the mask's bits.
pub fn check_subsets_prefix(cx: &mut Cx, mask: u64, n: u64) {
    cx.eval();
    let bits: Vec<usize> = (0..64).filter(|&i| (mask >> i) & 1 == 1).collect();
    let kth = |k: u64| -> u64 {
        let mut out = 0u64;
        for (j, &b) in bits.iter().enumerate() {
            if j < 64 && (k >> j) & 1 == 1 {
                out |= 1u64 << b;
            }
        }
        out
    };
    let total: u128 = 1u128 << bits.len();
    let want_n = (n as u128).min(total) as u64;
    let r = guard(|| {
        let mut it = BitBoard(mask).iter_subsets();
        let mut got = Vec::with_capacity(want_n as usize);
        for _ in 0..want_n {
            match it.next() {
                Some(s) => got.push(s.0),
                None => break,
            }
        }
        got
    });
    match r {
        Ok(got) => {
            if got.len() as u64 != want_n {
                v(cx, "iter_subsets|ends-early", format!("iter_subsets of {:#018x} ({} bits) stopped after {} subsets, expected at least {}", mask, bits.len(), got.len(), want_n), mask, 0);
            } else if let Some(k) = (0..want_n).find(|&k| got[k as usize] != kth(k)) {
                v(cx, "iter_subsets|wrong-prefix", format!("iter_subsets of {:#018x}: subset number {} is {:#x}, expected {:#x}", mask, k, got[k as usize], kth(k)), mask, 0);
            }
        }
        Err(e) => v(cx, "panic|iter_subsets", format!("iter_subsets of {:#018x} panicked: {}", mask, e), mask, 0),
    }
    cx.count("subset-prefix-checks");
}

fn interesting(cx: &mut Cx) -> u64 {
    match cx.rng.below(12) {
        0 => 0,
        1 => !0,
        2 => 1u64 << cx.rng.below(64),
        3 => 0xFFu64 << (8 * cx.rng.below(8)),
        4 => 0x0101_0101_0101_0101u64 << cx.rng.below(8),
        5 => cx.rng.sparse(3),
        6 => !cx.rng.sparse(3),
        7 => cx.rng.sparse(5),
        8 => !(1u64 << cx.rng.below(64)),
        _ => cx.rng.next_u64(),
    }
}

pub fn run(cfg: &Cfg) -> Result<Outcome, String> {
    let stats = run_sharded(cfg, |cx| {
        let pairs = if cx.miri { 60 } else { cx.budget(1_500_000, 40_000_000) };
        for i in 0..pairs {
            let a = interesting(cx);
            let b = match i % 6 {
                0 => a,
                1 => !a,
                2 => a & cx.rng.next_u64(), // subset
                3 => a | cx.rng.next_u64(), // superset
                _ => interesting(cx),
            };
            check_pair(cx, a, b);
            if a != 0 && a != !0 {
                cx.distinct(mix(a, b));
            }
            match i % 6 {
                2 => cx.count("pairs:subset"),
                3 => cx.count("pairs:superset"),
                1 => cx.count("pairs:complement"),
                0 => cx.count("pairs:equal"),
                _ => cx.count("pairs:independent"),
            }
        }
        // From<Square|File|Rank>
        if cx.shard == 0 {
            for i in 0..64 {
                cx.eval();
                let b: BitBoard = Square::ALL[i].into();
                if b.0 != 1u64 << i || Square::ALL[i].bitboard().0 != 1u64 << i {
                    v(cx, "from-square", format!("BitBoard::from({}) = {:#x}", sq_name(i), b.0), 0, 0);
                }
            }
            for f in 0..8 {
                cx.eval();
                let b: BitBoard = File::ALL[f].into();
                let want: u64 = (0..8).map(|r| 1u64 << idx(f as i32, r)).sum();
                if b.0 != want {
                    v(cx, "from-file", format!("BitBoard::from(file {}) = {:#x} want {:#x}", f, b.0, want), 0, 0);
                }
                let b: BitBoard = Rank::ALL[f].into();
                let want: u64 = (0..8).map(|c| 1u64 << idx(c, f as i32)).sum();
                if b.0 != want {
                    v(cx, "from-rank", format!("BitBoard::from(rank {}) = {:#x} want {:#x}", f, b.0, want), 0, 0);
                }
            }
        }
        // subset iteration
        let n_masks = if cx.miri { 10 } else { cx.budget(320, 6400) };
        let max_bits = if cx.miri { 5 } else if cx.is_thorough() { 20 } else { 14 };
        for i in 0..n_masks {
            let bits = (i % (max_bits + 1)) as u32;
            let mut mask = 0u64;
            while mask.count_ones() < bits {
                mask |= 1u64 << cx.rng.below(64);
            }
            if i % 7 == 0 && bits > 0 {
                mask |= 1u64 << 63; // top bit: the carry-rippler must still terminate
            }
            if i % 11 == 0 {
                mask = (1u64 << bits).wrapping_sub(1); // low prefix
            }
            check_subsets(cx, mask);
        }
        if cx.shard == 0 {
            check_subsets(cx, 0);
            check_subsets(cx, 1u64 << 63);
            check_subsets(cx, 0x8000_0000_0000_0001);
            check_subsets_prefix(cx, !0u64, 4096);
            check_subsets_prefix(cx, !1u64, 4096);
            check_subsets_prefix(cx, !0u64 >> 1, 4096);
        }
        // large masks: first subsets only
        let n_big = if cx.miri { 4 } else { cx.budget(1600, 32_000) };
        for i in 0..n_big {
            let mask = match i % 4 {
                0 => cx.rng.next_u64(),
                1 => !cx.rng.sparse(3),
                2 => cx.rng.next_u64() | cx.rng.next_u64(),
                _ => !(1u64 << cx.rng.below(64)),
            };
            check_subsets_prefix(cx, mask, if cx.miri { 16 } else { 512 });
        }
        cx.sample(|| "a=0x00000000000000ff b=0x0101010101010101: union/intersection/xor/difference/complement, subset tests, iteration, flips".to_string());
    })?;
    Ok(Outcome {
        stats,
        rule: "pairs drawn from {empty, full, singletons, ranks, files, sparse, dense, complements, subsets/supersets of each other}: every operator and assigning form, predicates, len, next_square, iteration order + exact remaining length at every step, FromIterator, From<Square|File|Rank>, both flips; iter_subsets on masks of up to 14 (quick) / 20 (thorough) bits: all 2^n subsets once, strictly increasing; distinct = (a, b) with a not empty/full".to_string(),
        floors: vec![Floor { counter: "subset-enumerations", at_least: 300 }, Floor { counter: "subset-prefix-checks", at_least: 1000 }],
        exhaustive: false,
        exhaustive_note: "sampled pairs; subset enumeration exhaustive per mask".to_string(),
        inconclusive: None,
    })
}
