//! C08 — the FEN parser is total, strict about structure, and names the bad field.

use crate::refmodel::fen::*;
use crate::refmodel::*;
use crate::runtime::*;
use crate::workload::text::*;
use crate::workload::{gen, Corpus};
use cozy_chess::*;

fn err_name(e: &FenParseError) -> &'static str {
    match e {
        FenParseError::InvalidBoard => "InvalidBoard",
        FenParseError::InvalidSideToMove => "InvalidSideToMove",
        FenParseError::InvalidCastlingRights => "InvalidCastlingRights",
        FenParseError::InvalidEnPassant => "InvalidEnPassant",
        FenParseError::InvalidHalfMoveClock => "InvalidHalfMoveClock",
        FenParseError::InvalidFullmoveNumber => "InvalidFullmoveNumber",
        FenParseError::MissingField => "MissingField",
        FenParseError::TooManyFields => "TooManyFields",
    }
}

#[derive(Clone, Copy, PartialEq, Eq, Debug)]
pub enum Parser {
    Plain,
    Shredder,
    FromStr,
}

impl Parser {
    fn name(self) -> &'static str {
        match self {
            Parser::Plain => "from_fen(plain)",
            Parser::Shredder => "from_fen(shredder)",
            Parser::FromStr => "FromStr",
        }
    }
    fn run(self, s: &str) -> Result<Result<Board, FenParseError>, String> {
        guard(|| match self {
            Parser::Plain => Board::from_fen(s, false),
            Parser::Shredder => Board::from_fen(s, true),
            Parser::FromStr => s.parse::<Board>(),
        })
    }
}

fn viol(cx: &mut Cx, sig: String, what: String, s: &str) {
    cx.violation(format!("C08|{}", sig), what, format!("input={:?}", s), vec!["fen".to_string(), "C08".to_string(), crate::hex(s)]);
}

/// Totality, structural strictness and faithful decoding on one arbitrary string.
pub fn arbitrary_one(cx: &mut Cx, s: &str) {
    for parser in [Parser::Plain, Parser::Shredder, Parser::FromStr] {
        cx.eval();
        match parser.run(s) {
            Err(e) => viol(cx, format!("panic|{}", parser.name()), format!("{} panicked on {:?}: {}", parser.name(), s, e), s),
            Ok(Err(e)) => {
                cx.count_dyn(format!("rejected:{}", err_name(&e)));
            }
            Ok(Ok(b)) => {
                cx.count("arbitrary-strings-accepted");
                if !structure_ok(s) {
                    let fields: Vec<&str> = s.split(' ').collect();
                    let why = if fields.len() != 6 {
                        "not-six-fields".to_string()
                    } else if let Some(i) = fields.iter().position(|f| f.is_empty()) {
                        format!("empty-field-{}", i + 1)
                    } else {
                        let ranks = fields[0].split('/').count();
                        if ranks != 8 {
                            format!("placement-has-{}-ranks", if ranks < 8 { "fewer-than-8" } else { "more-than-8" })
                        } else {
                            "placement-rank-not-8-files".to_string()
                        }
                    };
                    viol(cx, format!("accepted-bad-structure|{}", why), format!("{} accepted {:?} which is not six non-empty fields with an 8x8 placement ({})", parser.name(), s, why), s);
                    continue;
                }
                let got = RPos::observe(&b);
                // the board handed out must be a complete board of that position: its checkers and
                // pins are part of what `Board == Board` observes
                if super::bb_squares(b.checkers()) != got.checkers() || super::bb_squares(b.pinned()) != got.pinned() {
                    viol(
                        cx,
                        format!("decoded-board-derived-state|{}", parser.name()),
                        format!("{} read {:?}: checkers {} / pinned {} but the position has checkers {} / pinned {}", parser.name(), s,
                            super::squares_text(&super::bb_squares(b.checkers())), super::squares_text(&super::bb_squares(b.pinned())),
                            super::squares_text(&got.checkers()), super::squares_text(&got.pinned())),
                        s,
                    );
                }
                let decoded: Vec<RPos> = match parser {
                    Parser::Plain => decode_fen(s, Notation::Plain).ok().into_iter().collect(),
                    Parser::Shredder => decode_fen(s, Notation::Shredder).ok().into_iter().collect(),
                    Parser::FromStr => decode_fen(s, Notation::Plain).ok().into_iter().chain(decode_fen(s, Notation::Shredder).ok()).collect(),
                };
                if decoded.is_empty() {
                    viol(cx, format!("accepted-undecodable|{}", parser.name()), format!("{} accepted {:?} which does not denote a position", parser.name(), s), s);
                } else if !decoded.contains(&got) {
                    let field = super::boards_a_diff(&got, &decoded[0]);
                    viol(
                        cx,
                        format!("decoded-position-differs|{}|{}", parser.name(), field),
                        format!("{} read {:?} as '{}' but it denotes '{}'", parser.name(), s, write_fen(&got, true), write_fen(&decoded[0], true)),
                        s,
                    );
                }
            }
        }
    }
}

/// Replace field `i` of a record.
fn with_field(rec: &str, i: usize, new: &str) -> String {
    let mut f: Vec<String> = rec.split(' ').map(|x| x.to_string()).collect();
    f[i] = new.to_string();
    f.join(" ")
}

struct Corruption {
    text: String,
    want: &'static str,
    class: &'static str,
}

fn corruptions(cx: &mut Cx, p: &RPos, rec: &str, shredder_rec: bool) -> Vec<Corruption> {
    let rng = &mut cx.rng;
    let f: Vec<&str> = rec.split(' ').collect();
    let mut out = Vec::new();
    // ---- placement
    {
        let pl = f[0];
        let ranks: Vec<&str> = pl.split('/').collect();
        let k = rng.usize(8);
        let foreign = *rng.pick(&['x', 'X', 'o', '.', '-', 'é', 'Ｋ', '?', 'l', 'w']);
        let mut cs: Vec<char> = pl.chars().collect();
        let i = rng.usize(cs.len());
        if cs[i] != '/' {
            cs[i] = foreign;
        } else {
            cs.insert(i, foreign);
        }
        out.push(Corruption { text: with_field(rec, 0, &cs.iter().collect::<String>()), want: "InvalidBoard", class: "placement:foreign-char" });
        let mut r7: Vec<String> = ranks.iter().map(|x| x.to_string()).collect();
        r7[k] = format!("{}1", r7[k]);
        out.push(Corruption { text: with_field(rec, 0, &r7.join("/")), want: "InvalidBoard", class: "placement:9-files-in-a-rank" });
        let mut r6: Vec<String> = ranks.iter().map(|x| x.to_string()).collect();
        // drop one file: remove a trailing empty square or piece
        let mut rc: Vec<char> = r6[k].chars().collect();
        match rc.pop() {
            Some(d) if d.is_ascii_digit() && d > '1' => rc.push((d as u8 - 1) as char),
            _ => {}
        }
        r6[k] = rc.into_iter().collect();
        out.push(Corruption { text: with_field(rec, 0, &r6.join("/")), want: "InvalidBoard", class: "placement:7-files-in-a-rank" });
        let mut r: Vec<&str> = ranks.clone();
        // drop a rank that holds no king so that only the structure is wrong
        let droppable: Vec<usize> = (0..8).filter(|&i| !ranks[i].contains('k') && !ranks[i].contains('K')).collect();
        if !droppable.is_empty() {
            r.remove(*rng.pick(&droppable));
            out.push(Corruption { text: with_field(rec, 0, &r.join("/")), want: "InvalidBoard", class: "placement:7-ranks" });
        }
        out.push(Corruption { text: with_field(rec, 0, &format!("{}/8", pl)), want: "InvalidBoard", class: "placement:9-ranks" });
        out.push(Corruption { text: with_field(rec, 0, &format!("8/{}", pl)), want: "InvalidBoard", class: "placement:9-ranks" });
        // a whole extra rank that carries pieces, before and after the eight good ones
        let with_piece: Vec<&str> = ranks.iter().copied().filter(|r| r.chars().any(|c| c.is_ascii_alphabetic() && c != 'k' && c != 'K')).collect();
        if !with_piece.is_empty() {
            let extra = *rng.pick(&with_piece);
            out.push(Corruption { text: with_field(rec, 0, &format!("{}/{}", pl, extra)), want: "InvalidBoard", class: "placement:9-ranks-with-pieces" });
            out.push(Corruption { text: with_field(rec, 0, &format!("{}/{}", extra, pl)), want: "InvalidBoard", class: "placement:9-ranks-with-pieces" });
            out.push(Corruption { text: with_field(rec, 0, &format!("{}/{}/{}", pl, extra, extra)), want: "InvalidBoard", class: "placement:10-ranks-with-pieces" });
        }
        let mut r: Vec<String> = ranks.iter().map(|x| x.to_string()).collect();
        r[k] = String::new();
        out.push(Corruption { text: with_field(rec, 0, &r.join("/")), want: "InvalidBoard", class: "placement:empty-rank" });
        out.push(Corruption { text: with_field(rec, 0, ""), want: "InvalidBoard", class: "placement:empty-field" });
    }
    // ---- side to move
    for s in ["W", "B", "x", "", "white", "wb", "ｗ", "-", "0"] {
        out.push(Corruption { text: with_field(rec, 1, s), want: "InvalidSideToMove", class: "side:malformed" });
    }
    // ---- castling
    {
        let cur = f[2];
        for s in ["", "X", "1", "KQx", "--", "é", "Ki", "kk", "QQ", "aa", "HH"] {
            // must be malformed in both notations: letters outside KQkq/A-H/a-h, or a repeated letter
            out.push(Corruption { text: with_field(rec, 2, s), want: "InvalidCastlingRights", class: if s.is_empty() { "castling:empty" } else { "castling:malformed" } });
        }
        if cur != "-" {
            let c0 = cur.chars().next().unwrap();
            out.push(Corruption { text: with_field(rec, 2, &format!("{}{}", cur, c0)), want: "InvalidCastlingRights", class: "castling:duplicate" });
        }
        // two different rook letters on the same wing of one colour (Shredder): the second one cannot
        // be a further right, whatever the rooks on the board
        if shredder_rec {
            for &c in &[Color::White, Color::Black] {
                let br = rel_rank(c, 1);
                if let Some(k) = p.king_sq(c) {
                    if (k / 8) as i32 != br {
                        continue;
                    }
                    let kf = (k % 8) as i32;
                    for (lo, hi) in [(kf + 1, 7), (0, kf - 1)] {
                        let rooks: Vec<i32> = (lo..=hi).filter(|&f| p.sq[idx(f, br)] == Some((c, Piece::Rook))).collect();
                        if rooks.len() >= 2 {
                            let mut q = p.clone();
                            q.rights[ci(c)] = [None, None];
                            let others = write_rights(&q, true);
                            let others = if others == "-" { String::new() } else { others };
                            for (a, b) in [(rooks[0], rooks[1]), (rooks[1], rooks[0])] {
                                let l = |f: i32| -> char {
                                    let ch = (b'a' + f as u8) as char;
                                    if c == Color::White { ch.to_ascii_uppercase() } else { ch }
                                };
                                let field = if c == Color::White { format!("{}{}{}", l(a), l(b), others) } else { format!("{}{}{}", others, l(a), l(b)) };
                                out.push(Corruption { text: with_field(rec, 2, &field), want: "InvalidCastlingRights", class: "castling:two-letters-same-wing" });
                            }
                        }
                    }
                }
            }
        }
        // well-formed but unsupported
        for &c in &[Color::White, Color::Black] {
            let br = rel_rank(c, 1);
            let king_on_back = p.king_sq(c).map(|k| (k / 8) as i32 == br).unwrap_or(false);
            if p.rights[ci(c)] != [None, None] {
                continue; // keep the corruption single: only add a right to a colour that has none
            }
            let other_rights = write_rights(&{
                let mut q = p.clone();
                q.rights[ci(c)] = [None, None];
                q
            }, shredder_rec);
            let other_rights = if other_rights == "-" { String::new() } else { other_rights };
            let compose = |letter: char| -> String {
                let l = if c == Color::White { letter.to_ascii_uppercase() } else { letter.to_ascii_lowercase() };
                if c == Color::White {
                    format!("{}{}", l, other_rights)
                } else {
                    format!("{}{}", other_rights, l)
                }
            };
            if shredder_rec {
                for file in 0..8 {
                    let has_rook = p.sq[idx(file, br)] == Some((c, Piece::Rook));
                    if !has_rook || !king_on_back {
                        out.push(Corruption { text: with_field(rec, 2, &compose((b'a' + file as u8) as char)), want: "InvalidCastlingRights", class: "castling:unsupported" });
                        break;
                    }
                }
            } else {
                for (letter, file) in [('k', 7), ('q', 0)] {
                    let has_rook = p.sq[idx(file, br)] == Some((c, Piece::Rook));
                    let kf = p.king_sq(c).map(|k| (k % 8) as i32).unwrap_or(-1);
                    let side_ok = if letter == 'k' { kf < file } else { kf > file };
                    if !has_rook || !king_on_back || !side_ok {
                        out.push(Corruption { text: with_field(rec, 2, &compose(letter)), want: "InvalidCastlingRights", class: "castling:unsupported" });
                    }
                }
            }
        }
    }
    // ---- en passant
    {
        for s in ["", "e", "e9", "i3", "e3x", "E3", "33", "ee", "-e3", "é3", "a0"] {
            out.push(Corruption { text: with_field(rec, 3, s), want: "InvalidEnPassant", class: "ep:malformed" });
        }
        if p.ep.is_none() {
            let good_rank = rel_rank(p.stm, 6);
            // wrong rank
            let mut r = rng.range(0, 7) as i32;
            if r == good_rank {
                r = (r + 4) % 8;
            }
            let fch = (b'a' + rng.below(8) as u8) as char;
            out.push(Corruption { text: with_field(rec, 3, &format!("{}{}", fch, r + 1)), want: "InvalidEnPassant", class: "ep:wrong-rank" });
            // right rank, backed by pawn and empty squares, but contradicted by the checkers: a piece
            // gives check that is neither the pushed pawn nor a slider uncovered by the pawn leaving
            // its origin square, so the position cannot have arisen from that double push
            for file in 0..8u8 {
                let mut q = p.clone();
                q.ep = Some(file);
                if q.structurally_sound().is_ok() {
                    let them = other(p.stm);
                    let pawn = idx(file as i32, rel_rank(them, 4));
                    let origin = idx(file as i32, rel_rank(them, 2));
                    let k = p.king_sq(p.stm).unwrap();
                    let contradicted = p.checkers().iter().any(|&c| c != pawn && (crate::refmodel::geom::between(c, k) >> origin) & 1 == 0);
                    if contradicted {
                        out.push(Corruption { text: with_field(rec, 3, &write_ep(&q)), want: "InvalidEnPassant", class: "ep:contradicted-by-checkers" });
                    }
                }
            }
            // right rank but unsupported according to the model
            for file in 0..8u8 {
                let mut q = p.clone();
                q.ep = Some(file);
                if matches!(q.structurally_sound(), Err(c) if c.starts_with("ep-")) {
                    out.push(Corruption { text: with_field(rec, 3, &write_ep(&q)), want: "InvalidEnPassant", class: "ep:unsupported" });
                    break;
                }
            }
        }
    }
    // ---- clocks
    for s in ["", "x", "-1", "1.5", "１", "1 ", "0x1", "101", "255", "256", "1000", "99999999999999999999", "1e2"] {
        if s.contains(' ') {
            continue;
        }
        out.push(Corruption { text: with_field(rec, 4, s), want: "InvalidHalfMoveClock", class: if s.chars().all(|c| c.is_ascii_digit()) && !s.is_empty() { "halfmove:out-of-range" } else { "halfmove:malformed" } });
    }
    for s in ["", "x", "-1", "1.5", "１", "0", "00", "65536", "70000", "99999999999999999999", "1e2"] {
        out.push(Corruption { text: with_field(rec, 5, s), want: "InvalidFullmoveNumber", class: if s.chars().all(|c| c.is_ascii_digit()) && !s.is_empty() { "fullmove:out-of-range" } else { "fullmove:malformed" } });
    }
    // ---- too few / too many fields
    for k in 1..=5 {
        out.push(Corruption { text: f[..k].join(" "), want: "MissingField", class: "fields:too-few" });
    }
    for extra in [" x", " ", " 1", " - -", " w"] {
        out.push(Corruption { text: format!("{}{}", rec, extra), want: "TooManyFields", class: "fields:too-many" });
    }
    out
}

/// Error attribution on single-field corruptions of one canonical record.
pub fn attribution(cx: &mut Cx, p: &RPos) {
    for shredder_rec in [true, false] {
        if !shredder_rec && !p.plain_fen_rights() {
            continue;
        }
        let rec = write_fen(p, shredder_rec);
        let parsers: &[Parser] = if shredder_rec { &[Parser::Shredder, Parser::FromStr] } else { &[Parser::Plain, Parser::FromStr] };
        // the uncorrupted record must be accepted, otherwise "otherwise valid" does not apply
        let mut base_ok = true;
        for &parser in parsers {
            if !matches!(parser.run(&rec), Ok(Ok(_))) {
                base_ok = false;
            }
        }
        if !base_ok {
            cx.count("attribution:base-record-not-accepted(skipped)");
            continue;
        }
        cx.count("attribution:base-records");
        for c in corruptions(cx, p, &rec, shredder_rec) {
            for &parser in parsers {
                cx.eval();
                match parser.run(&c.text) {
                    Err(e) => viol(cx, format!("panic|{}", parser.name()), format!("{} panicked: {}", parser.name(), e), &c.text),
                    Ok(Ok(_)) => viol(
                        cx,
                        format!("corrupted-record-accepted|{}|{}", c.class, parser.name()),
                        format!("{} accepted the record with a corrupted field ({}): {:?} (from {:?})", parser.name(), c.class, c.text, rec),
                        &c.text,
                    ),
                    Ok(Err(e)) => {
                        if err_name(&e) != c.want {
                            viol(
                                cx,
                                format!("wrong-error|{}|want={}|got={}|{}", c.class, c.want, err_name(&e), parser.name()),
                                format!("{} reports {} for {:?} where only {} is wrong (expected {})", parser.name(), err_name(&e), c.text, c.class, c.want),
                                &c.text,
                            );
                        }
                        cx.count_dyn(format!("attributed:{}", c.class));
                    }
                }
            }
            cx.distinct(fnv(c.text.as_bytes()));
        }
    }
    // FromStr accepts both notations of the same position and yields equal boards
    if p.plain_fen_rights() {
        cx.eval();
        let a = Parser::FromStr.run(&write_fen(p, false));
        let b = Parser::FromStr.run(&write_fen(p, true));
        match (a, b) {
            (Ok(Ok(x)), Ok(Ok(y))) => {
                cx.count("fromstr-both-notations-accepted");
                if x != y {
                    viol(cx, "fromstr-notations-differ".to_string(), "FromStr of the plain and the Shredder record of one position give different boards".to_string(), &write_fen(p, true));
                }
            }
            (Ok(Ok(_)), Ok(Err(e))) => viol(cx, format!("fromstr-rejects-shredder-notation|{}", err_name(&e)), format!("FromStr accepts the plain record but rejects the Shredder record with {}", err_name(&e)), &write_fen(p, true)),
            (Ok(Err(e)), Ok(Ok(_))) => viol(cx, format!("fromstr-rejects-plain-notation|{}", err_name(&e)), format!("FromStr accepts the Shredder record but rejects the plain record with {}", err_name(&e)), &write_fen(p, false)),
            _ => {}
        }
    }
}

pub fn run(cfg: &Cfg) -> Result<Outcome, String> {
    let corpus = Corpus::load();
    let stats = run_sharded(cfg, |cx| {
        // (1) arbitrary strings
        let n = cx.budget(4_000_000, 100_000_000);
        let mut seeds: Vec<String> = Vec::new();
        for i in 0..n {
            if seeds.len() < 64 || i % 50 == 0 {
                let p = match i % 6 {
                    0 | 3 => gen::scatter(&mut cx.rng),
                    1 => gen::special_class_case2(&mut cx.rng).0,
                    2 => gen::pin_case(&mut cx.rng),
                    _ => gen::sound_random(&mut cx.rng),
                };
                let s = write_fen(&p, cx.rng.chance(1, 2));
                if seeds.len() < 64 {
                    seeds.push(s);
                } else {
                    let k = cx.rng.usize(64);
                    seeds[k] = s;
                }
            }
            let s = match i % 10 {
                0 => random_string(&mut cx.rng, FEN_ALPHABET, 90),
                1 => random_unicode(&mut cx.rng, 40),
                2 if !corpus.valid.is_empty() => {
                    let b = cx.rng.pick(&corpus.valid).clone();
                    mutate(&mut cx.rng, &b, FEN_ALPHABET)
                }
                3 if !corpus.invalid.is_empty() => {
                    let b = cx.rng.pick(&corpus.invalid).clone();
                    if cx.rng.chance(1, 2) {
                        b
                    } else {
                        mutate(&mut cx.rng, &b, FEN_ALPHABET)
                    }
                }
                4 => {
                    // structural mutations: ranks and fields
                    let b = cx.rng.pick(&seeds).clone();
                    let mut fields: Vec<String> = b.split(' ').map(|x| x.to_string()).collect();
                    let mut ranks: Vec<String> = fields[0].split('/').map(|x| x.to_string()).collect();
                    match cx.rng.below(8) {
                        0 => {
                            let k = cx.rng.usize(ranks.len());
                            ranks.remove(k);
                        }
                        1 => {
                            let k = cx.rng.usize(ranks.len());
                            let r = ranks[k].clone();
                            ranks.insert(k, r);
                        }
                        2 => ranks.truncate(1 + cx.rng.usize(7)),
                        3 => {
                            let k = cx.rng.usize(fields.len());
                            fields[k] = String::new();
                        }
                        4 => {
                            let k = cx.rng.usize(fields.len());
                            fields.remove(k);
                        }
                        5 => fields.push(cx.rng.pick(&["", "x", "1", "-"]).to_string()),
                        6 => {
                            let k = cx.rng.usize(8.min(ranks.len()));
                            ranks[k] = cx.rng.pick(&["", "9", "44", "71", "08", "k70", "17", "pppppppp", "ppppppppp"]).to_string();
                        }
                        _ => {
                            let k = cx.rng.usize(fields.len());
                            let v = fields[k].clone();
                            fields[k] = format!("{} ", v);
                        }
                    }
                    fields[0] = ranks.join("/");
                    fields.join(" ")
                }
                5 | 6 => {
                    let b = cx.rng.pick(&seeds).clone();
                    mutate(&mut cx.rng, &b, FEN_ALPHABET)
                }
                7 => {
                    let b = cx.rng.pick(&seeds).clone();
                    let k = 2 + cx.rng.usize(3);
                    mutate_n(&mut cx.rng, &b, FEN_ALPHABET, k)
                }
                8 => {
                    // lexical variants of the clock fields and digits
                    let b = cx.rng.pick(&seeds).clone();
                    let k = 4 + cx.rng.usize(2);
                    let v = cx.rng.pick(&["+5", "005", "+0", "0100", "100", "+100", "000", "65535", "+65535", "065535", "-0", "٣"]).to_string();
                    with_field(&b, k, &v)
                }
                9 if i % 20 == 9 => {
                    let b = cx.rng.pick(&seeds).clone();
                    alias_substitution(&mut cx.rng, &b)
                }
                _ => cx.rng.pick(&seeds).clone(),
            };
            arbitrary_one(cx, &s);
            cx.distinct(fnv(s.as_bytes()));
            if i % 100_000 == 7 {
                cx.sample(|| format!("{:?}", s));
            }
        }
        cx.count_n("arbitrary_strings", n);
        // every single-character look-alike substitution of a few canonical records
        let n_rec = if cx.miri { 1 } else { cx.budget(16 * 12, 16 * 300) };
        for _ in 0..n_rec {
            let p = if cx.rng.chance(1, 2) { gen::castle_case(&mut cx.rng) } else { gen::sound_random(&mut cx.rng) };
            if p.structurally_sound().is_err() {
                continue;
            }
            for sh in [true, false] {
                let rec = write_fen(&p, sh);
                let mut subs: Vec<String> = Vec::new();
                for_all_alias_substitutions(&rec, &mut |t| subs.push(t.to_string()));
                for t in subs {
                    arbitrary_one(cx, &t);
                    cx.count("alias-substituted-records");
                }
            }
        }
        // every two-byte UTF-8 character (and a sample of three-byte ones) in place of every span of one
        // or two placement symbols: parsers that look at bytes instead of characters alias them to ASCII
        let n_rec2 = if cx.miri { 0 } else { cx.budget(16 * 2, 16 * 12) };
        for _ in 0..n_rec2 {
            let mut p = gen::sound_random(&mut cx.rng);
            // make sure there is an empty rank
            let er = cx.rng.range(2, 5) as i32;
            for f in 0..8 {
                if !matches!(p.sq[idx(f, er)], Some((_, Piece::King))) {
                    p.sq[idx(f, er)] = None;
                }
            }
            p.ep = None;
            if p.structurally_sound().is_err() {
                continue;
            }
            let rec = write_fen(&p, true);
            let cs: Vec<char> = rec.chars().collect();
            let pl_len = rec.split(' ').next().unwrap().chars().count();
            for start in 0..pl_len {
                for span in 1..=2usize {
                    if start + span > pl_len || cs[start..start + span].contains(&'/') {
                        continue;
                    }
                    let lo = 0x80u32;
                    let step3 = 0x800 + cx.rng.below(37) as u32;
                    let candidates = (lo..0x800).chain((step3..0x10000).step_by(37));
                    for v in candidates {
                        if let Some(ch) = char::from_u32(v) {
                            let mut t: Vec<char> = cs[..start].to_vec();
                            t.push(ch);
                            t.extend_from_slice(&cs[start + span..]);
                            let text: String = t.into_iter().collect();
                            arbitrary_one(cx, &text);
                            cx.count("multibyte-span-substitutions");
                        }
                    }
                }
            }
        }
        // (2) attribution
        let m = cx.budget(40_000, 1_000_000);
        for _ in 0..m {
            let p = match cx.rng.below(8) {
                0 | 1 => gen::castle_case(&mut cx.rng),
                2 | 3 => gen::ep_case(&mut cx.rng),
                4 => gen::dense_fragmented_case(&mut cx.rng),
                _ => gen::sound_random(&mut cx.rng),
            };
            let mut p = p;
            if cx.rng.chance(1, 4) {
                // a second own rook on the same wing as an existing one
                let c = if cx.rng.chance(1, 2) { Color::White } else { Color::Black };
                let br = rel_rank(c, 1);
                if let Some(k) = p.king_sq(c) {
                    if (k / 8) as i32 == br {
                        let f = cx.rng.range(0, 7) as i32;
                        if p.sq[idx(f, br)].is_none() {
                            p.sq[idx(f, br)] = Some((c, Piece::Rook));
                        }
                    }
                }
            }
            if p.structurally_sound().is_err() {
                continue;
            }
            attribution(cx, &p);
        }
    })?;
    let _ = &corpus;
    Ok(Outcome {
        stats,
        rule: "arbitrary strings (chess-flavoured alphabet, arbitrary Unicode, mutated corpus and canonical records, structural edits of ranks/fields, lexical clock variants) through from_fen(plain), from_fen(shredder) and FromStr: no panic; Ok => six non-empty fields, 8x8 placement, observed board == decoded position; single-field corruptions by class of canonical records of sound positions must yield the matching FenParseError variant; distinct = distinct input strings".to_string(),
        floors: vec![
            Floor { counter: "attribution:base-records", at_least: 1000 },
            Floor { counter: "attributed:placement:7-ranks", at_least: 500 },
            Floor { counter: "attributed:castling:empty", at_least: 500 },
            Floor { counter: "attributed:castling:unsupported", at_least: 200 },
            Floor { counter: "attributed:ep:unsupported", at_least: 200 },
            Floor { counter: "attributed:fields:too-many", at_least: 500 },
            Floor { counter: "arbitrary-strings-accepted", at_least: 1000 },
        ],
        exhaustive: false,
        exhaustive_note: "sampled".to_string(),
        inconclusive: None,
    })
}
