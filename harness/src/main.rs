//! `monitor` — runtime monitors for the cozy-chess properties C01..C20.
//!
//! usage: monitor <Cxx> <quick|thorough> [--seed N] [--out FILE] [--shards N] [--scale NUM/DEN]
//!        monitor selftest
//!        monitor replay <kind> <args...>
//!        monitor info

mod json;
mod monitor;
mod refmodel;
mod rng;
mod runtime;
mod selftest;
mod workload;

use monitor::boards_a::*;
use monitor::boards_b::*;
use runtime::*;
use std::time::Instant;
use workload::*;

pub fn hex(s: &str) -> String {
    let mut o = String::from("hex:");
    for b in s.as_bytes() {
        o.push_str(&format!("{:02x}", b));
    }
    o
}

pub fn unhex(s: &str) -> String {
    match s.strip_prefix("hex:") {
        Some(h) => {
            let bytes: Vec<u8> = (0..h.len() / 2).filter_map(|i| u8::from_str_radix(&h[2 * i..2 * i + 2], 16).ok()).collect();
            String::from_utf8_lossy(&bytes).to_string()
        }
        None => s.to_string(),
    }
}

fn fl(counter: &'static str, at_least: u64) -> Floor {
    Floor { counter, at_least }
}

struct BoardRun {
    mix: Mix,
    quick: u64,
    thorough: u64,
    small: bool, // add the exhaustive 3-man slice in the thorough tier
    trees: (u32, u32, usize, u32, u32, usize), // exhaustive shallow trees from the 960 starts: quick (depth_all, depth_some, some_per_shard), thorough (...)
    rule: &'static str,
    floors: Vec<Floor>,
}

/// All 3-man positions (two kings + one further piece of either colour, either side to move)
/// through the builder; the accepted ones are the complete set of 3-man boards.
fn small_boards(cx: &mut Cx, mon: &mut dyn BoardMonitor) {
    use cozy_chess::{Color, Piece};
    use refmodel::*;
    let kinds = [Piece::Pawn, Piece::Knight, Piece::Bishop, Piece::Rook, Piece::Queen];
    for wk in cx.mine(64) {
        for bk in 0..64usize {
            if bk == wk {
                continue;
            }
            for s in 0..64usize {
                if s == wk || s == bk {
                    continue;
                }
                for &pc in &kinds {
                    for &c in &[Color::White, Color::Black] {
                        for &stm in &[Color::White, Color::Black] {
                            let mut p = RPos::empty();
                            p.sq[wk] = Some((Color::White, Piece::King));
                            p.sq[bk] = Some((Color::Black, Piece::King));
                            p.sq[s] = Some((c, pc));
                            p.stm = stm;
                            cx.count("three-man-builder-states");
                            if let Ok(Ok(b)) = build(&p) {
                                cx.count("three-man-boards-accepted");
                                let m = RPos::observe(&b);
                                let hist = Hist { route: "builder", root: fen::write_fen(&m, true), moves: vec![] };
                                let ev = Ev { kind: EvKind::Root, prev: None, mv: None, hist: &hist, source: "three-man-exhaustive" };
                                mon.on_board(cx, &b, &m, &ev);
                            }
                        }
                    }
                }
            }
        }
    }
}

/// A seeded sample of 4-man positions (two kings + two further pieces of any colours) through the
/// builder: pins against the edge, mutual attacks, stalemates and mates are dense here.
fn four_man_sample(cx: &mut Cx, mon: &mut dyn BoardMonitor, n: u64) {
    use cozy_chess::{Color, Piece};
    use refmodel::*;
    let kinds = [Piece::Pawn, Piece::Knight, Piece::Bishop, Piece::Rook, Piece::Queen];
    for _ in 0..n {
        let mut p = RPos::empty();
        let mut sqs: Vec<usize> = Vec::new();
        while sqs.len() < 4 {
            let s = cx.rng.usize(64);
            if !sqs.contains(&s) {
                sqs.push(s);
            }
        }
        p.sq[sqs[0]] = Some((Color::White, Piece::King));
        p.sq[sqs[1]] = Some((Color::Black, Piece::King));
        for &s in &sqs[2..] {
            let c = if cx.rng.chance(1, 2) { Color::White } else { Color::Black };
            p.sq[s] = Some((c, *cx.rng.pick(&kinds)));
        }
        p.stm = if cx.rng.chance(1, 2) { Color::White } else { Color::Black };
        p.half = *cx.rng.pick(&[0u32, 0, 50, 99, 100]);
        cx.count("four-man-builder-states");
        if let Ok(Ok(b)) = build(&p) {
            cx.count("four-man-boards-accepted");
            let m = RPos::observe(&b);
            let hist = Hist { route: "builder", root: fen::write_fen(&m, true), moves: vec![] };
            let ev = Ev { kind: EvKind::Root, prev: None, mv: None, hist: &hist, source: "four-man-sample" };
            mon.on_board(cx, &b, &m, &ev);
        }
    }
}

fn run_boards<M: BoardMonitor>(cfg: &Cfg, spec: BoardRun, make: impl Fn() -> M + Sync, extra: impl Fn(&mut Cx, &mut M) + Sync) -> Result<Outcome, String> {
    let corpus = Corpus::load();
    let prop: &'static str = Box::leak(cfg.property.clone().into_boxed_str());
    let stats = run_sharded(cfg, |cx| {
        cx.st.table_prop = prop;
        let mut mon = make();
        let budget = cx.budget(spec.quick, spec.thorough);
        let drv = Driver { corpus: &corpus, mix: spec.mix };
        drv.run(cx, &mut mon, budget);
        if spec.small && cx.is_thorough() && !cx.miri {
            small_boards(cx, &mut mon);
            let n = cx.budget(0, 8_000_000);
            four_man_sample(cx, &mut mon, n);
        }
        if !cx.miri {
            let (qa, qs, qn, ta, ts, tn) = spec.trees;
            let (a, sm, n) = if cx.is_thorough() { (ta, ts, tn) } else { (qa, qs, qn) };
            if a > 0 || sm > 0 {
                start_trees(cx, &mut mon, a, sm, n);
            }
        }
        extra(cx, &mut mon);
    })?;
    let mut stats = stats;
    // cross-route table summary
    if !stats.table.is_empty() {
        let keys = stats.table.len() as u64;
        let multi = stats.table.values().filter(|e| e.1.count_ones() >= 2).count() as u64;
        stats.counters.insert("cross_route_table_keys", keys);
        stats.counters.insert("cross_route_keys_reached_by_2+_route_kinds", multi);
        stats.table.clear();
    }
    Ok(Outcome { stats, rule: spec.rule.to_string(), floors: spec.floors, exhaustive: false, exhaustive_note: "sampled boards; per-board enumerations as stated in the rule".to_string(), inconclusive: None })
}

fn run_property(cfg: &Cfg) -> Result<Outcome, String> {
    let no_extra = |_: &mut Cx, _: &mut dyn BoardMonitor| {};
    let _ = no_extra;
    match cfg.property.as_str() {
        "C01" => run_boards(
            cfg,
            BoardRun {
                mix: Mix::GENERAL,
                quick: 3_000_000,
                thorough: 80_000_000,
                small: true,
                trees: (2, 3, 2, 3, 4, 1),
                rule: "boards from all entry routes (960/DFRC starts, corpus, scatter, sound-random, pin/EP/castling/promotion/mating/max-batch lattices; builder and FEN) and random legal walks with null moves; per board the multiset of generated moves is compared with the reference model's legal moves; distinct_nontrivial = distinct positions (placement, side, rights, EP) in check, with pins, EP file, castling rights, promotions or no legal move",
                floors: vec![
                    fl("class:single-check", 2000),
                    fl("class:double-check", 200),
                    fl("class:own-piece-pinned", 2000),
                    fl("class:ep-capture-legal", 500),
                    fl("class:ep-capture-pseudo-legal-but-illegal", 100),
                    fl("class:ep-file-while-in-check", 100),
                    fl("class:castling-legal", 1000),
                    fl("class:castling-right-but-illegal", 1000),
                    fl("class:chess960-rights-geometry", 1000),
                    fl("class:promotion-available", 500),
                    fl("class:checkmate", 20),
                    fl("class:stalemate", 5),
                ],
            },
            || C01,
            |cx, mon| {
                // thorough: every one of the 960 x 960 double Chess960 start positions
                if cx.is_thorough() && !cx.miri {
                    for w in cx.mine(960) {
                        for bn in 0..960u32 {
                            if let Ok(b) = guard(|| cozy_chess::Board::double_chess960_startpos(w as u32, bn)) {
                                let m = refmodel::RPos::observe(&b);
                                let hist = Hist { route: "dfrc", root: refmodel::fen::write_fen(&m, true), moves: vec![] };
                                let ev = Ev { kind: EvKind::Root, prev: None, mv: None, hist: &hist, source: "dfrc-all-pairs" };
                                mon.on_board(cx, &b, &m, &ev);
                                cx.count("dfrc-all-pairs");
                            }
                        }
                    }
                }
            },
        ),
        "C02" => run_boards(
            cfg,
            BoardRun {
                mix: Mix::GENERAL,
                quick: 900_000,
                thorough: 25_000_000,
                small: false,
                trees: (1, 2, 4, 2, 3, 2),
                rule: "for every board of the stream and every legal move: play_unchecked (and play / try_play on a third) on a clone, observed successor compared field by field with the rule-book successor of the reference model; distinct_nontrivial = distinct positions from which a castling, EP, promotion, right-losing or clock-saturating move was played, or with EP file / in check",
                floors: vec![
                    fl("castle-played:short", 500),
                    fl("castle-played:long", 500),
                    fl("castle:chess960-geometry", 500),
                    fl("castle:king-does-not-move", 20),
                    fl("castle:rook-does-not-move", 20),
                    fl("ep-capture-played", 300),
                    fl("promotion-played", 1000),
                    fl("right-lost:king-move", 1000),
                    fl("right-lost:rook-leaves-square", 1000),
                    fl("right-lost:capture-on-square", 200),
                    fl("right-lost:capture-promotion-on-square", 20),
                    fl("halfmove-reaches-or-stays-100", 500),
                    fl("fullmove-saturated", 500),
                    fl("ep-file-set", 1000),
                    fl("ep-file-cleared", 500),
                ],
            },
            || C02,
            |_, _| {},
        ),
        "C03" => run_boards(
            cfg,
            BoardRun {
                mix: Mix::HISTORIES,
                quick: 2_400_000,
                thorough: 60_000_000,
                small: true,
                trees: (2, 3, 2, 3, 4, 1),
                rule: "after every play_unchecked / null_move of random histories (and at every root): checkers() and pinned() against the definition computed by the reference model, Board == board rebuilt through builder and through Shredder-FEN, and a cross-route table (position+clocks -> checkers,pins) merged over shards; distinct_nontrivial = distinct positions with a non-empty pinned or checker set",
                floors: vec![
                    fl("observed-after-play", 100_000),
                    fl("observed-after-null-move", 5000),
                    fl("observed-after-castling", 500),
                    fl("observed-after-en-passant", 200),
                    fl("observed-after-promotion", 500),
                    fl("boards-with-pins", 20_000),
                    fl("boards-with-enemy-piece-pinned", 1000),
                    fl("boards-in-double-check", 200),
                ],
            },
            || C03,
            |_, _| {},
        ),
        "C04" => run_boards(
            cfg,
            BoardRun {
                mix: Mix::ROOTS_ONLY,
                quick: 100_000,
                thorough: 3_000_000,
                small: false,
                trees: (1, 0, 0, 2, 0, 0),
                rule: "per board all 64*64*7 = 28672 move values: is_legal(mv) == membership in the library's own generated set (never panics); distinct_nontrivial = distinct positions in a special class (check, pins, EP, castling rights, promotions, no move)",
                floors: vec![fl("class:single-check", 300), fl("class:double-check", 20), fl("class:castling-legal", 200), fl("class:ep-capture-legal", 50), fl("class:promotion-available", 100), fl("class:own-piece-pinned", 300)],
            },
            C04::new,
            |_, _| {},
        ),
        "C12" => run_boards(
            cfg,
            BoardRun {
                mix: Mix { mating: 30, fewmovers: 25, special: 20, special2: 20, walk_pct: 50, clock_edge_pct: 40, ..Mix::GENERAL },
                quick: 3_000_000,
                thorough: 80_000_000,
                small: true,
                trees: (1, 2, 2, 3, 0, 0),
                rule: "status() against the reference model (no legal move & in check => Won; no legal move & not in check, or move & clock>=100 => Drawn) on the general stream enriched with mating nets and clocks forced to 96..100; distinct_nontrivial = distinct positions (with clocks) whose status class is not plain Ongoing",
                floors: vec![fl("status-won", 500), fl("status-stalemate", 100), fl("status-fifty", 500), fl("status-ongoing-99", 200), fl("status-won-at-100", 5)],
            },
            || C12,
            |_, _| {},
        ),
        "C14" => run_boards(
            cfg,
            BoardRun {
                mix: Mix::HISTORIES,
                quick: 3_000_000,
                thorough: 80_000_000,
                small: true,
                trees: (2, 3, 1, 3, 4, 1),
                rule: "null_move() on every board of random histories (which themselves interleave null moves): refused iff in check (model); result compared field by field with the model's null successor, checkers/pins with the definition, and == boards rebuilt through builder and text; distinct_nontrivial = distinct positions where the null move is refused, clears an EP file, saturates a clock, leaves pins, or follows another null move",
                floors: vec![
                    fl("null-move-accepted", 100_000),
                    fl("refused-in-single-check", 2000),
                    fl("refused-in-double-check", 100),
                    fl("null-after-double-push(ep-cleared)", 1000),
                    fl("null-at-halfmove-99-or-100", 500),
                    fl("null-at-fullmove-65535", 200),
                    fl("null-result-has-pins", 5000),
                    fl("two-null-moves-in-a-row", 500),
                ],
            },
            || C14,
            |_, _| {},
        ),
        "C15" => {
            let per = if cfg.tier == Tier::Thorough { 300 } else { 120 };
            run_boards(
                cfg,
                BoardRun {
                    mix: Mix::ROOTS_ONLY,
                    quick: 40_000,
                    thorough: 1_200_000,
                    small: false,
                    trees: (0, 1, 4, 1, 2, 2),
                    rule: "per board all 28672 move values through try_play on a scratch clone: Ok iff legal, Ok result == play_unchecked result, Err leaves the clone == original (Eq, text, hash); play(): never panics on legal moves, panics on a sample of illegal ones (near misses first) leaving the board unchanged; distinct_nontrivial = distinct positions in a special class",
                    floors: vec![fl("try_play_ok", 50_000), fl("play-panicked-on-illegal", 100_000), fl("play-illegal-castling-attempted", 200)],
                },
                move || C15::new(per),
                |_, _| {},
            )
        }
        "C16" => run_boards(
            cfg,
            BoardRun {
                mix: Mix { maxbatch: 6, fewmovers: 8, ..Mix::GENERAL },
                quick: 800_000,
                thorough: 20_000_000,
                small: false,
                trees: (1, 2, 2, 2, 3, 2),
                rule: "per board ~15 masks (empty, full, own pieces, all-but-king, only/all-but EP capturers, only/all-but pinned, single squares, random dense/sparse and complements): generate_moves_for(mask) == {legal m : m.from in mask} (model), batches non-empty and <= 18, and for every k an aborting listener is called exactly k+1 times and the call returns true; distinct_nontrivial = distinct positions where a mask cut an EP capturer or a pinned piece, or in check",
                floors: vec![fl("abort_points_exercised", 500_000), fl("mask-cuts-ep-capturers", 2000), fl("mask-cuts-pinned-piece", 2000), fl("max_batches_in_one_call", 17)],
            },
            || C16,
            |_, _| {},
        ),
        "C06" => run_boards(
            cfg,
            BoardRun {
                mix: Mix { start960: 30, dfrc: 30, walk_pct: 85, walk_len: 150, null_pct: 0, clock_edge_pct: 0, ..Mix::GENERAL },
                quick: 1_800_000,
                thorough: 45_000_000,
                small: false,
                trees: (2, 3, 2, 3, 0, 0),
                rule: "soundness: every board handed out by any route (text x3 parsers, builder, start constructors, play, null move) is checked clause by clause by the reference model; single-defect candidates (one clause broken in an otherwise sound position) and scatter are submitted through from_fen(plain/shredder), FromStr and the builder; acceptance: every position along legal walks from the 960 / DFRC starts is re-entered through all text routes and the builder and must be accepted and equal; start constructors checked against the Chess960 definition; distinct_nontrivial = distinct re-entered positions + distinct defect candidates + DFRC pairs",
                floors: vec![
                    fl("acceptance:positions-re-entered", 50_000),
                    fl("acceptance:from-dfrc-start", 20_000),
                    fl("acceptance:with-ep-file", 2000),
                    fl("acceptance:with-ep-file-in-check", 10),
                    fl("candidates_accepted", 5000),
                    fl("candidates_rejected", 20_000),
                    fl("defect-submitted:kings-adjacent", 100),
                    fl("defect-submitted:side-not-to-move-in-check", 100),
                    fl("defect-submitted:right-on-wrong-side", 20),
                    fl("defect-submitted:ep-origin-occupied", 50),
                    fl("dfrc_pairs_checked", 1000),
                ],
            },
            || C06,
            |cx, _| {
                let n = cx.budget(240_000, 6_000_000);
                c06_defect_loop(cx, n);
                let pairs = cx.budget(32_000, 32_000);
                let all = cx.is_thorough() && !cx.miri;
                c06_start_constructors(cx, pairs, all);
            },
        ),
        "C07" => run_boards(
            cfg,
            BoardRun {
                mix: Mix::GENERAL,
                quick: 1_500_000,
                thorough: 40_000_000,
                small: false,
                trees: (2, 0, 0, 3, 0, 0),
                rule: "every accepted board of the stream: Shredder text == canonical record of the observed position (character for character), from_fen/FromStr of it == board; same for plain FEN when all rights are on a/h; boards equal <=> texts equal (ring of recent boards, fresh rebuild, cross-shard table text -> std::hash of Board); converse: canonical records written by the model for sound random positions parse and re-format to the identical string; distinct_nontrivial = distinct texts with EP file, inner-file or one-sided rights, or after a null move",
                floors: vec![
                    fl("plain-fen-expressible", 50_000),
                    fl("rights-on-inner-files(shredder-only)", 20_000),
                    fl("with-ep-file", 5000),
                    fl("after-null-move", 2000),
                    fl("one-sided-rights", 5000),
                    fl("canonical-records-accepted", 10_000),
                    fl("longest_record_chars", 91),
                ],
            },
            C07::new,
            |cx, _| {
                let n = cx.budget(400_000, 10_000_000);
                c07_canonical_records(cx, n);
            },
        ),
        "C09" => run_boards(
            cfg,
            BoardRun {
                mix: Mix::GENERAL,
                quick: 900_000,
                thorough: 25_000_000,
                small: false,
                trees: (1, 0, 0, 2, 0, 0),
                rule: "random builder states (scatter, lattices, sound positions with 0-2 aspect edits): if a Shredder record expresses the state, build().is_ok() == from_fen(record).is_ok() and both boards are equal and carry the state's fields; wrong-side rights must be rejected; single-aspect defects must yield the matching BoardBuilderError; every accepted board of the stream: from_board(b).build() == b; distinct_nontrivial = distinct accepted records + round-tripped boards",
                floors: vec![
                    fl("agree-accept", 20_000),
                    fl("agree-reject", 20_000),
                    fl("inexpressible-states(wrong-side-right)", 500),
                    fl("single-aspect:InvalidBoard", 500),
                    fl("single-aspect:InvalidCastlingRights", 500),
                    fl("single-aspect:InvalidEnPassant", 500),
                    fl("single-aspect:InvalidHalfMoveClock", 500),
                    fl("single-aspect:InvalidFullmoveNumber", 500),
                ],
            },
            || C09,
            |cx, _| {
                let n = cx.budget(3_000_000, 80_000_000);
                for i in 0..n {
                    if i % 4 == 3 {
                        c09_single_aspect(cx);
                    } else {
                        let (bd, src) = c09_random_state(cx);
                        c09_builder_vs_parser_one(cx, &bd, src);
                    }
                }
            },
        ),
        "C10" => run_boards(
            cfg,
            BoardRun {
                mix: Mix::HISTORIES,
                quick: 1_500_000,
                thorough: 40_000_000,
                small: false,
                trees: (2, 3, 2, 3, 4, 1),
                rule: "after every call of random histories: hash() == hash of the position rebuilt through builder and through text; hash_without_ep() == hash of the position with the EP file cleared; clock changes (setters, text) leave the hash unchanged; transposition probes (two moves + two replies in different orders reaching the same model position) and a cross-shard table position -> hash must be single-valued; distinct_nontrivial = distinct positions (placement, side, rights, EP)",
                floors: vec![
                    fl("hash-after-play", 100_000),
                    fl("hash-after-null-move", 5000),
                    fl("hash-after-castling", 500),
                    fl("hash-after-en-passant", 200),
                    fl("hash-after-promotion", 500),
                    fl("hash-after-rights-change", 2000),
                    fl("hash-after-two-rights-lost-in-one-move", 200),
                    fl("hash_without_ep-checked-with-ep-present", 5000),
                    fl("transpositions-compared", 5000),
                    fl("cross_route_keys_reached_by_2+_route_kinds", 100),
                    fl("text-route-boards", 100_000),
                ],
            },
            || C10,
            |cx, _| {
                let n = cx.budget(400_000, 10_000_000);
                c10_text_routes(cx, n);
            },
        ),
        "C13" => run_boards(
            cfg,
            BoardRun {
                mix: Mix { ep: 40, ..Mix::GENERAL },
                quick: 900_000,
                thorough: 25_000_000,
                small: false,
                trees: (1, 2, 1, 2, 3, 1),
                rule: "around every board a group (itself, other clocks, EP cleared / a backed EP file added, one right less, other side to move, one piece changed, previous board of the stream): same_position on all ordered pairs against FIDE identity (placement, side, rights, effective EP = EP file iff the model finds a legal EP capture); reflexive, symmetric, transitive on the observed relation; distinct_nontrivial = distinct positions around which a group of > 2 boards was built",
                floors: vec![
                    fl("ep-file-with-legal-capture", 5000),
                    fl("ep-file-with-capturer-but-illegal", 400),
                    fl("ep-file-without-capturing-pawn", 5000),
                    fl("ep-file-with-non-pawn-on-capture-square", 300),
                ],
            },
            C13::new,
            |_, _| {},
        ),
        "C20" => {
            let spb = if cfg.tier == Tier::Thorough { 40 } else { 24 };
            run_boards(
                cfg,
                BoardRun {
                    mix: Mix { sanamb: 20, promo: 10, castle: 16, corpus: 30, ..Mix::GENERAL },
                    quick: 600_000,
                    thorough: 15_000_000,
                    small: false,
                    trees: (1, 2, 2, 2, 3, 1),
                    rule: "per board and every legal move: display_san_move == canonical SAN written by the reference model, parse_san_move inverts it; on boards with orthodox rights display_uci_move == standard UCI and parse_uci_move inverts it; per board mutated SAN texts and random strings through parse_san_move: no panic, result legal, text within the SAN grammar, no written component contradicted, not accepted when two legal moves fit; distinct_nontrivial = distinct positions with disambiguation, castling, EP, promotion or mate in the SAN of some move",
                    floors: vec![
                        fl("writer:file-disambiguation", 2000),
                        fl("writer:rank-disambiguation", 500),
                        fl("writer:file+rank-disambiguation", 50),
                        fl("writer:castling", 1000),
                        fl("writer:castling-with-check", 5),
                        fl("writer:en-passant", 300),
                        fl("writer:promotion", 2000),
                        fl("writer:mate-suffix", 100),
                        fl("uci:castling", 100),
                        fl("reader:accepted", 50_000),
                        fl("reader:rejected", 100_000),
                    ],
                },
                move || monitor::c20::C20 { strings_per_board: spb },
                |_, _| {},
            )
        }
        "C11" => {
            let corpus = Corpus::load();
            let stats = run_sharded(cfg, |cx| {
                if cx.shard == 0 {
                    let per = if cx.is_thorough() { 8 } else { 3 };
                    let keys = monitor::c11::recover_keys(cx, per);
                    cx.count_n("non_king_keys_recovered", keys.singles.len() as u64);
                    monitor::c11::check_combinations(cx, &keys);
                    #[cfg(feature = "hooks")]
                    monitor::c11::hook_table_check(cx, &keys);
                    cx.sample(|| format!("recovered e.g. {} = {:#018x}", keys.singles[0].0, keys.singles[0].1));
                }
                let mut mon = monitor::c11::C11Direct;
                let budget = cx.budget(1_200_000, 30_000_000);
                let drv = Driver { corpus: &corpus, mix: Mix::HISTORIES };
                drv.run(cx, &mut mon, budget);
            })?;
            Ok(Outcome {
                stats,
                rule: "feature keys recovered through Board::hash as differences of accepted board pairs (608 piece keys, 16 castling, 8 EP, side, 2x63 king-relative keys; >= 3 unrelated backgrounds each, which must agree); offline checker: no single key zero, no two equal, no key equal to a pair XOR, no two pair XORs equal (covers all 1..4-subsets of the observable non-king keys), king-move deltas against 0/1/2 features and against each other; direct monitor: random edited pairs at feature distance 1..4 and every null/quiet/capture move along walks; distinct_nontrivial = distinct (hash, hash) pairs of edited boards".to_string(),
                floors: vec![fl("non_king_keys_recovered", 633), fl("pair_xors_checked", 190_000), fl("king_move_deltas_checked", 4000), fl("null-moves-observed", 2000)],
                exhaustive: false,
                exhaustive_note: "the combination checker is exhaustive over the keys observable through the API; pawn keys on ranks 1/8 and individual king keys are only covered when the guarded hook is compiled in".to_string(),
                inconclusive: None,
            })
        }
        "C05" => monitor::c05::run(cfg),
        "C08" => monitor::c08::run(cfg),
        "C17" => monitor::c17::run(cfg),
        "C18" => monitor::c18::run(cfg),
        "C19" => monitor::c19::run(cfg),
        other => Err(format!("unknown property {}", other)),
    }
}

fn replay(args: &[String]) -> i32 {
    install_panic_hook();
    let cfg = Cfg { property: "replay".into(), tier: Tier::Quick, seed: 1, shards: 1, out: None, scale_num: 1, scale_den: 1, miri: false };
    let mut cx = Cx::new(&cfg, 0);
    let kind = args.first().map(|s| s.as_str()).unwrap_or("none");
    match kind {
        "board" => {
            let prop = args[1].clone();
            let route = args[2].clone();
            let root = unhex(&args[3]);
            let moves: Vec<String> = args[4..].to_vec();
            println!("replay: property {} root[{}] '{}' moves {:?}", prop, route, root, moves);
            let board = match root_from(&route, &root) {
                Some(b) => b,
                None => {
                    println!("the library no longer accepts the root position (this itself may be the repair)");
                    return 0;
                }
            };
            let mut mon: Box<dyn BoardMonitor> = match prop.as_str() {
                "C01" => Box::new(C01),
                "C02" => Box::new(C02),
                "C03" => Box::new(C03),
                "C04" => Box::new(C04::new()),
                "C06" => Box::new(C06),
                "C07" => Box::new(C07::new()),
                "C09" => Box::new(C09),
                "C10" => Box::new(C10),
                "C11" => Box::new(monitor::c11::C11Direct),
                "C12" => Box::new(C12),
                "C13" => Box::new(C13::new()),
                "C14" => Box::new(C14),
                "C15" => Box::new(C15::new(200)),
                "C16" => Box::new(C16),
                "C20" => Box::new(monitor::c20::C20 { strings_per_board: 200 }),
                _ => {
                    println!("no board monitor for {}", prop);
                    return 2;
                }
            };
            let route_s: &'static str = Box::leak(route.clone().into_boxed_str());
            let mut hist = Hist { route: route_s, root: root.clone(), moves: vec![] };
            let mut b = board;
            let mut m = refmodel::RPos::observe(&b);
            {
                let ev = Ev { kind: EvKind::Root, prev: None, mv: None, hist: &hist, source: "replay" };
                mon.on_board(&mut cx, &b, &m, &ev);
            }
            for mvt in &moves {
                let prev = (b.clone(), m.clone());
                if mvt == "null" {
                    match guard(|| b.null_move()) {
                        Ok(Some(nb)) => b = nb,
                        _ => {
                            println!("null move refused / panicked during replay");
                            break;
                        }
                    }
                    m = refmodel::RPos::observe(&b);
                    hist.moves.push(mvt.clone());
                    let ev = Ev { kind: EvKind::Null, prev: Some((&prev.0, &prev.1)), mv: None, hist: &hist, source: "replay" };
                    mon.on_board(&mut cx, &b, &m, &ev);
                } else {
                    let mv: cozy_chess::Move = match mvt.parse() {
                        Ok(x) => x,
                        Err(_) => {
                            println!("bad move text {}", mvt);
                            return 2;
                        }
                    };
                    if guard(|| b.play_unchecked(mv)).is_err() {
                        println!("play_unchecked({}) panicked during replay", mvt);
                        break;
                    }
                    m = refmodel::RPos::observe(&b);
                    hist.moves.push(mvt.clone());
                    let ev = Ev { kind: EvKind::Play, prev: Some((&prev.0, &prev.1)), mv: Some(refmodel::RMove::of(mv)), hist: &hist, source: "replay" };
                    mon.on_board(&mut cx, &b, &m, &ev);
                }
            }
        }
        "fen" => {
            let prop = args[1].clone();
            let text = unhex(&args[2]);
            println!("replay: property {} text {:?}", prop, text);
            println!("  from_fen(plain)    = {:?}", guard(|| cozy_chess::Board::from_fen(&text, false).map(|b| format!("{:#}", b))));
            println!("  from_fen(shredder) = {:?}", guard(|| cozy_chess::Board::from_fen(&text, true).map(|b| format!("{:#}", b))));
            println!("  FromStr            = {:?}", guard(|| text.parse::<cozy_chess::Board>().map(|b| format!("{:#}", b))));
            println!("  structure ok (six non-empty fields, 8x8) = {}", refmodel::fen::structure_ok(&text));
            monitor::c08::arbitrary_one(&mut cx, &text);
            if let Some(p) = refmodel::fen::decode_any(&text) {
                println!("  model: denotes '{}' sound={:?}", refmodel::fen::write_fen(&p, true), p.structurally_sound());
                println!("  builder            = {:?}", build(&p).map(|r| r.map(|b| format!("{:#}", b))));
                c06_submit_all_routes(&mut cx, &p, "replay", None);
                let bd = to_builder(&p);
                c09_builder_vs_parser_one(&mut cx, &bd, "replay");
                if p.structurally_sound().is_ok() {
                    monitor::c08::attribution(&mut cx, &p);
                }
            }
        }
        "san" => {
            let fen = unhex(&args[1]);
            let text = unhex(&args[2]);
            let route = args.get(3).cloned().unwrap_or_else(|| "builder".into());
            println!("replay: C20 board '{}' text {:?}", fen, text);
            if let Some(b) = root_from(&route, &fen) {
                let m = refmodel::RPos::observe(&b);
                let legal = m.legal_moves();
                let hist = Hist { route: "builder", root: fen.clone(), moves: vec![] };
                let ev = Ev { kind: EvKind::Root, prev: None, mv: None, hist: &hist, source: "replay" };
                println!("  parse_san_move = {:?}", guard(|| cozy_chess::util::parse_san_move(&b, &text).map(|m| m.to_string())));
                monitor::c20::reader_one(&mut cx, &b, &m, &legal, &text, &ev);
                let mut mon = monitor::c20::C20 { strings_per_board: 0 };
                mon.on_board(&mut cx, &b, &m, &ev);
            } else {
                println!("root no longer accepted");
            }
        }
        "c05" => {
            let occ = u64::from_str_radix(args[3].trim_start_matches("0x"), 16).unwrap_or(0);
            monitor::c05::replay_one(&mut cx, &args[1], args[2].parse().unwrap_or(0), occ);
        }
        "c17" => {
            let piece = cozy_chess::Piece::ALL[args[1].parse::<usize>().unwrap_or(0) % 6];
            let to = u64::from_str_radix(args[3].trim_start_matches("0x"), 16).unwrap_or(0);
            monitor::c17::check_batch(&mut cx, piece, args[2].parse().unwrap_or(0), to, "replay");
        }
        "c18" => {
            let a = u64::from_str_radix(args[1].trim_start_matches("0x"), 16).unwrap_or(0);
            let b = u64::from_str_radix(args[2].trim_start_matches("0x"), 16).unwrap_or(0);
            monitor::c18::check_pair(&mut cx, a, b);
            if a.count_ones() <= 20 {
                monitor::c18::check_subsets(&mut cx, a);
            }
        }
        "c19-offset" => {
            let s: usize = args[1].parse().unwrap_or(0);
            let df: i8 = args[2].parse().unwrap_or(0);
            let dr: i8 = args[3].parse().unwrap_or(0);
            let r = guard(|| cozy_chess::Square::ALL[s].try_offset(df, dr));
            println!("replay: {}.try_offset({}, {}) = {:?} (profile {})", refmodel::sq_name(s), df, dr, r, PROFILE);
            if r.is_err() {
                cx.violation("C19|try_offset|panic".into(), "panicked".into(), String::new(), vec![]);
            }
        }
        "c19-text" => {
            let text = unhex(&args[2]);
            println!("replay: {}::from_str({:?})", args[1], text);
            monitor::c19::text_one(&mut cx, &args[1], &text);
        }
        _ => {
            println!("this violation has no single-case replay (aggregate check); re-run the check itself");
            return 0;
        }
    }
    if cx.st.violations.is_empty() {
        println!("REPLAY: not reproduced on the current tree ({} comparisons)", cx.st.evaluations);
        0
    } else {
        for v in &cx.st.violations {
            println!("REPLAY: reproduced: {} :: {}", v.signature, v.what);
        }
        1
    }
}

fn main() {
    let args: Vec<String> = std::env::args().skip(1).collect();
    if args.is_empty() {
        eprintln!("usage: monitor <Cxx> <quick|thorough> [--seed N] [--out FILE] | selftest | replay ... | info");
        std::process::exit(2);
    }
    match args[0].as_str() {
        "info" => {
            println!("backend={} profile={} hooks={}", BACKEND, PROFILE, cfg!(feature = "hooks"));
            return;
        }
        "selftest" => {
            install_panic_hook();
            let quick = args.get(1).map(|s| s == "quick").unwrap_or(false);
            match selftest::run(quick) {
                Ok(msg) => {
                    println!("SELFTEST OK: {}", msg);
                    return;
                }
                Err(e) => {
                    println!("SELFTEST FAILED: {}", e);
                    std::process::exit(2);
                }
            }
        }
        "replay" => {
            std::process::exit(replay(&args[1..]));
        }
        _ => {}
    }
    let started = Instant::now();
    install_panic_hook();
    let mut cfg = Cfg {
        property: args[0].clone(),
        tier: if args.get(1).map(|s| s.as_str()) == Some("thorough") { Tier::Thorough } else { Tier::Quick },
        seed: 1,
        shards: 16,
        out: None,
        scale_num: 1,
        scale_den: 1,
        miri: false,
    };
    let mut i = 2;
    while i < args.len() {
        match args[i].as_str() {
            "--seed" => {
                cfg.seed = args[i + 1].parse().unwrap_or(1);
                i += 1;
            }
            "--out" => {
                cfg.out = Some(args[i + 1].clone());
                i += 1;
            }
            "--miri" => {
                cfg.miri = true;
            }
            "--shards" => {
                cfg.shards = args[i + 1].parse().unwrap_or(16);
                i += 1;
            }
            "--scale" => {
                let mut it = args[i + 1].split('/');
                cfg.scale_num = it.next().and_then(|x| x.parse().ok()).unwrap_or(1);
                cfg.scale_den = it.next().and_then(|x| x.parse().ok()).unwrap_or(1);
                i += 1;
            }
            _ => {}
        }
        i += 1;
    }
    // reduced self-test of the oracle before every check
    if let Err(e) = if cfg.miri { Ok(String::new()) } else { selftest::run(true) } {
        let out = Outcome { stats: Stats::default(), rule: String::new(), floors: vec![], exhaustive: false, exhaustive_note: String::new(), inconclusive: Some(format!("reference-model self-test failed: {}", e)) };
        write_result(&cfg, &out, started);
        std::process::exit(2);
    }
    match run_property(&cfg) {
        Ok(out) => {
            write_result(&cfg, &out, started);
        }
        Err(e) => {
            let out = Outcome { stats: Stats::default(), rule: String::new(), floors: vec![], exhaustive: false, exhaustive_note: String::new(), inconclusive: Some(e) };
            write_result(&cfg, &out, started);
            std::process::exit(2);
        }
    }
}
