//! Self-test of the reference model against published ground truth (not against cozy-chess):
//! perft counts (chessprogramming.org / the repository's own test file), the 83 (move, SAN) pairs
//! of the repository's SAN test, FEN write/decode round trips, the set model against integer
//! arithmetic. A failure makes every check inconclusive.

use crate::refmodel::fen::*;
use crate::refmodel::geom::*;
use crate::refmodel::san::san;
use crate::refmodel::*;
use crate::rng::Rng;
use crate::workload::{gen, Corpus};

const PERFT: &[(&str, &[u64])] = &[
    ("rnbqkbnr/pppppppp/8/8/8/8/PPPPPPPP/RNBQKBNR w KQkq - 0 1", &[1, 20, 400, 8902, 197281]),
    ("r3k2r/p1ppqpb1/bn2pnp1/3PN3/1p2P3/2N2Q1p/PPPBBPPP/R3K2R w KQkq - 0 1", &[1, 48, 2039, 97862]),
    ("8/2p5/3p4/KP5r/1R3p1k/8/4P1P1/8 w - - 0 1", &[1, 14, 191, 2812, 43238, 674624]),
    ("r3k2r/Pppp1ppp/1b3nbN/nP6/BBP1P3/q4N2/Pp1P2PP/R2Q1RK1 w kq - 0 1", &[1, 6, 264, 9467, 422333]),
    ("rnbq1k1r/pp1Pbppp/2p5/8/2B5/8/PPP1NnPP/RNBQK2R w KQ - 1 8", &[1, 44, 1486, 62379]),
    ("r4rk1/1pp1qppp/p1np1n2/2b1p1B1/2B1P1b1/P1NP1N2/1PP1QPPP/R4RK1 w - - 0 10", &[1, 46, 2079, 89890]),
    // Chess960 roots (Shredder notation), counts from the repository's perft_960_* tests
    ("1rqbkrbn/1ppppp1p/1n6/p1N3p1/8/2P4P/PP1PPPP1/1RQBKRBN w FBfb - 0 9", &[1, 29, 502, 14569, 287739]),
    ("rbbqn1kr/pp2p1pp/6n1/2pp1p2/2P4P/P7/BP1PPPP1/R1BQNNKR w HAha - 0 9", &[1, 27, 916, 25798, 890435]),
    ("rqbbknr1/1ppp2pp/p5n1/4pp2/P7/1PP5/1Q1PPPPP/R1BBKNRN w GAga - 0 9", &[1, 24, 600, 15347, 408207]),
    ("rkb2bnr/pp2pppp/2p1n3/3p4/q2P4/5NP1/PPP1PP1P/RKBNQBR1 w Aha - 0 9", &[1, 29, 861, 24504, 763454]),
];

const SAN_FEN: &str = "3k2n1/7P/Q3p3/4BPp1/Q1Q4q/8/5B2/R3K2R w KQ g6 0 1";
const SAN_PAIRS: &[(&str, &str)] = &[
    ("a6c8", "Qac8+"), ("a6a8", "Qa8+"), ("a6b7", "Qb7"), ("a6a7", "Qa7"),
    ("a6e6", "Qaxe6"), ("a6d6", "Qd6#"), ("a6c6", "Q6c6"), ("a6b6", "Qb6+"),
    ("a6b5", "Q6b5"), ("a6a5", "Q6a5+"), ("e5h8", "Bh8"), ("e5b8", "Bb8"),
    ("e5g7", "Bg7"), ("e5c7", "Bc7+"), ("e5f6", "Bf6+"), ("e5d6", "Bd6"),
    ("e5f4", "Bf4"), ("e5d4", "Bd4"), ("e5g3", "Beg3"), ("e5c3", "Bc3"),
    ("e5h2", "Bh2"), ("e5b2", "Bb2"), ("c4c8", "Qcc8+"), ("c4c7", "Qc7#"),
    ("c4e6", "Qcxe6"), ("c4c6", "Qcc6"), ("c4d5", "Qd5+"), ("c4c5", "Qc5"),
    ("c4b5", "Qcb5"), ("c4h4", "Qxh4"), ("c4g4", "Qg4"), ("c4f4", "Qf4"),
    ("c4e4", "Qe4"), ("c4d4", "Qd4+"), ("c4b4", "Qcb4"), ("c4d3", "Qd3+"),
    ("c4c3", "Qc3"), ("c4b3", "Qcb3"), ("c4e2", "Qe2"), ("c4c2", "Qcc2"),
    ("c4a2", "Qca2"), ("c4f1", "Qf1"), ("c4c1", "Qc1"), ("a4e8", "Qe8+"),
    ("a4d7", "Qd7+"), ("a4c6", "Qa4c6"), ("a4b5", "Qa4b5"), ("a4a5", "Q4a5+"),
    ("a4b4", "Qab4"), ("a4b3", "Qab3"), ("a4a3", "Qa3"), ("a4c2", "Qac2"),
    ("a4a2", "Qaa2"), ("a4d1", "Qd1+"), ("f2h4", "Bxh4"), ("f2g3", "Bfg3"),
    ("h1h4", "Rxh4"), ("h1h3", "Rh3"), ("h1h2", "Rh2"), ("h1g1", "Rg1"),
    ("h1f1", "Rf1"), ("e1e2", "Ke2"), ("e1d2", "Kd2"), ("e1f1", "Kf1"),
    ("e1d1", "Kd1"), ("a1a3", "Ra3"), ("a1a2", "Ra2"), ("a1d1", "Rd1+"),
    ("a1c1", "Rc1"), ("a1b1", "Rb1"), ("e1h1", "O-O"), ("e1a1", "O-O-O+"),
    ("h7g8q", "hxg8=Q+"), ("h7g8r", "hxg8=R+"), ("h7g8b", "hxg8=B"), ("h7g8n", "hxg8=N"),
    ("f5e6", "fxe6"), ("h7h8q", "h8=Q"), ("h7h8r", "h8=R"), ("h7h8b", "h8=B"),
    ("h7h8n", "h8=N"), ("f5f6", "f6"), ("f5g6", "fxg6"),
];

fn parse_move_text(s: &str) -> Option<RMove> {
    let b = s.as_bytes();
    if b.len() < 4 {
        return None;
    }
    let sq = |f: u8, r: u8| -> Option<u8> {
        if (b'a'..=b'h').contains(&f) && (b'1'..=b'8').contains(&r) {
            Some((r - b'1') * 8 + (f - b'a'))
        } else {
            None
        }
    };
    let promo = match b.get(4) {
        None => None,
        Some(b'n') => Some(cozy_chess::Piece::Knight),
        Some(b'b') => Some(cozy_chess::Piece::Bishop),
        Some(b'r') => Some(cozy_chess::Piece::Rook),
        Some(b'q') => Some(cozy_chess::Piece::Queen),
        _ => return None,
    };
    Some(RMove { from: sq(b[0], b[1])?, to: sq(b[2], b[3])?, promo })
}

pub fn run(reduced: bool) -> Result<String, String> {
    // perft of the model alone
    let mut nodes_total = 0u64;
    for (fen, counts) in PERFT {
        let p = decode_any(fen).ok_or_else(|| format!("model cannot decode {}", fen))?;
        if p.structurally_sound().is_err() {
            return Err(format!("model thinks the perft root {} is unsound: {:?}", fen, p.structurally_sound()));
        }
        let maxd = if reduced { 3.min(counts.len() - 1) } else { counts.len() - 1 };
        for d in 0..=maxd {
            let n = perft(&p, d as u32);
            if n != counts[d] {
                return Err(format!("model perft({}, {}) = {} but the published count is {}", fen, d, n, counts[d]));
            }
            nodes_total += n;
        }
    }
    // SAN writer
    let p = decode_any(SAN_FEN).ok_or("model cannot decode the SAN test position")?;
    let legal = p.legal_moves();
    if legal.len() != SAN_PAIRS.len() {
        return Err(format!("model finds {} legal moves in the SAN test position, the test lists {}", legal.len(), SAN_PAIRS.len()));
    }
    for (mt, want) in SAN_PAIRS {
        let mv = parse_move_text(mt).ok_or("bad move text in table")?;
        if !legal.contains(&mv) {
            return Err(format!("model does not consider {} legal in the SAN test position", mt));
        }
        let got = san(&p, mv, &legal);
        if got != *want {
            return Err(format!("model SAN for {} is {} but the published SAN is {}", mt, got, want));
        }
    }
    // FEN write/decode round trips on the corpus and on generated positions
    let corpus = Corpus::load();
    let mut n_fen = 0;
    let step = if reduced { 10 } else { 1 };
    for line in corpus.valid.iter().step_by(step) {
        let p = decode_fen(line, Notation::Shredder).map_err(|e| format!("model cannot decode corpus line '{}': {:?}", line, e))?;
        if write_fen(&p, true) != *line {
            return Err(format!("model round trip of corpus line '{}' gives '{}'", line, write_fen(&p, true)));
        }
        if let Err(c) = p.structurally_sound() {
            return Err(format!("model judges valid-corpus line '{}' unsound: {}", line, c));
        }
        n_fen += 1;
    }
    let mut rng = Rng::new(12345);
    for _ in 0..(if reduced { 200 } else { 5000 }) {
        let p = gen::sound_random(&mut rng);
        for sh in [true, false] {
            if !sh && !p.plain_fen_rights() {
                continue;
            }
            let t = write_fen(&p, sh);
            let q = decode_fen(&t, if sh { Notation::Shredder } else { Notation::Plain }).map_err(|e| format!("model cannot decode its own record '{}': {:?}", t, e))?;
            if q != p {
                return Err(format!("model round trip of '{}' differs", t));
            }
        }
        n_fen += 1;
    }
    // set model against integer arithmetic
    for _ in 0..(if reduced { 500 } else { 20000 }) {
        let (a, b) = (rng.next_u64(), rng.sparse(2));
        let (ma, mb) = (SetModel::from_u64(a), SetModel::from_u64(b));
        if ma.to_u64() != a || ma.map2(&mb, |x, y| x && y).to_u64() != a & b || ma.map2(&mb, |x, y| x != y).to_u64() != a ^ b || ma.len() != a.count_ones() as usize {
            return Err("set model disagrees with integer arithmetic".to_string());
        }
    }
    // geometry sanity: rook on a1 on the empty board attacks 14 squares, bishop on d4 13
    if rook_attacks(0, 0).count_ones() != 14 || bishop_attacks(27, 0).count_ones() != 13 || between(0, 63).count_ones() != 6 || line(0, 9).count_ones() != 8 {
        return Err("geometry model sanity check failed".to_string());
    }
    Ok(format!("model perft matched {} published counts ({} nodes), 83 SAN pairs, {} FEN round trips", PERFT.iter().map(|x| if reduced { 4.min(x.1.len()) } else { x.1.len() }).sum::<usize>(), nodes_total, n_fen))
}
