//! Minimal JSON writer (no third-party crates offline).

pub enum Json {
    Null,
    Bool(bool),
    Int(i64),
    Num(f64),
    Str(String),
    Arr(Vec<Json>),
    Obj(Vec<(String, Json)>),
}

impl Json {
    pub fn obj() -> Json {
        Json::Obj(Vec::new())
    }
    pub fn set(&mut self, k: &str, v: Json) {
        if let Json::Obj(items) = self {
            items.push((k.to_string(), v));
        }
    }
    pub fn render(&self) -> String {
        let mut s = String::new();
        self.write(&mut s);
        s
    }
    fn write(&self, out: &mut String) {
        match self {
            Json::Null => out.push_str("null"),
            Json::Bool(b) => out.push_str(if *b { "true" } else { "false" }),
            Json::Int(i) => out.push_str(&i.to_string()),
            Json::Num(f) => {
                if f.is_finite() {
                    out.push_str(&format!("{:.3}", f))
                } else {
                    out.push_str("0")
                }
            }
            Json::Str(s) => escape(s, out),
            Json::Arr(a) => {
                out.push('[');
                for (i, x) in a.iter().enumerate() {
                    if i > 0 {
                        out.push(',');
                    }
                    x.write(out);
                }
                out.push(']');
            }
            Json::Obj(o) => {
                out.push('{');
                for (i, (k, v)) in o.iter().enumerate() {
                    if i > 0 {
                        out.push(',');
                    }
                    escape(k, out);
                    out.push(':');
                    v.write(out);
                }
                out.push('}');
            }
        }
    }
}

pub fn escape(s: &str, out: &mut String) {
    out.push('"');
    for c in s.chars() {
        match c {
            '"' => out.push_str("\\\""),
            '\\' => out.push_str("\\\\"),
            '\n' => out.push_str("\\n"),
            '\r' => out.push_str("\\r"),
            '\t' => out.push_str("\\t"),
            c if (c as u32) < 0x20 || (c as u32) == 0x7f => out.push_str(&format!("\\u{:04x}", c as u32)),
            c if (c as u32) > 0xFFFF => {
                let v = c as u32 - 0x10000;
                out.push_str(&format!("\\u{:04x}\\u{:04x}", 0xD800 + (v >> 10), 0xDC00 + (v & 0x3FF)));
            }
            c if (c as u32) >= 0x80 => out.push_str(&format!("\\u{:04x}", c as u32)),
            c => out.push(c),
        }
    }
    out.push('"');
}
