//! Canonical PGN-standard SAN writer, standard UCI writer, and a tokeniser for the SAN-reader oracle.

use super::*;

fn up(p: Piece) -> char {
    piece_letter(p).to_ascii_uppercase()
}

/// Canonical SAN of legal move `mv` in `pos` (`legal` = all legal moves of `pos`).
pub fn san(pos: &RPos, mv: RMove, legal: &[RMove]) -> String {
    let mut s = String::new();
    let piece = pos.sq[mv.from as usize].map(|x| x.1).unwrap_or(Piece::Pawn);
    if pos.is_castle(mv) {
        if (mv.to % 8) > (mv.from % 8) {
            s.push_str("O-O");
        } else {
            s.push_str("O-O-O");
        }
    } else {
        let capture = pos.is_capture(mv);
        if piece == Piece::Pawn {
            if capture {
                s.push((b'a' + mv.from % 8) as char);
            }
        } else {
            s.push(up(piece));
            // other legal moves of the same kind of piece to the same destination
            let others: Vec<RMove> = legal
                .iter()
                .copied()
                .filter(|o| {
                    o.to == mv.to
                        && o.from != mv.from
                        && !pos.is_castle(*o)
                        && pos.sq[o.from as usize].map(|x| x.1) == Some(piece)
                })
                .collect();
            if !others.is_empty() {
                let file_unique = others.iter().all(|o| o.from % 8 != mv.from % 8);
                let rank_unique = others.iter().all(|o| o.from / 8 != mv.from / 8);
                if file_unique {
                    s.push((b'a' + mv.from % 8) as char);
                } else if rank_unique {
                    s.push((b'1' + mv.from / 8) as char);
                } else {
                    s.push((b'a' + mv.from % 8) as char);
                    s.push((b'1' + mv.from / 8) as char);
                }
            }
        }
        if capture {
            s.push('x');
        }
        s.push_str(&sq_name(mv.to as usize));
        if let Some(p) = mv.promo {
            s.push('=');
            s.push(up(p));
        }
    }
    let after = pos.make(mv);
    if after.in_check(after.stm) {
        if after.legal_moves().is_empty() {
            s.push('#');
        } else {
            s.push('+');
        }
    }
    s
}

/// Standard UCI text on a board with orthodox castling rights (castling as e1g1 / e1c1).
pub fn uci(pos: &RPos, mv: RMove) -> String {
    if pos.is_castle(mv) {
        let br = mv.from / 8;
        let kf = if (mv.to % 8) > (mv.from % 8) { 6 } else { 2 };
        return format!("{}{}", sq_name(mv.from as usize), sq_name((br * 8 + kf) as usize));
    }
    mv.text()
}

/// Components written in a SAN text under the generous grammar
/// `[PNBRQK]?[a-h]?[1-8]?x?[a-h][1-8](=?[PNBRQK])?[+#]?` or `O-O(-O)?[+#]?`.
#[derive(Clone, Debug, PartialEq, Eq)]
pub struct SanParts {
    pub castle: Option<usize>, // 0 short, 1 long
    pub piece: Option<Piece>,  // written piece letter
    pub from_file: Option<u8>,
    pub from_rank: Option<u8>,
    pub capture_mark: bool,
    pub to: Option<u8>,
    pub promo: Option<Piece>,
    pub suffix: Option<char>,
}

fn letter_piece(c: char) -> Option<Piece> {
    match c {
        'P' => Some(Piece::Pawn),
        'N' => Some(Piece::Knight),
        'B' => Some(Piece::Bishop),
        'R' => Some(Piece::Rook),
        'Q' => Some(Piece::Queen),
        'K' => Some(Piece::King),
        _ => None,
    }
}

/// Tokenise; `None` when the text is outside the grammar.
pub fn san_parts(text: &str) -> Option<SanParts> {
    let mut cs: Vec<char> = text.chars().collect();
    let mut parts = SanParts { castle: None, piece: None, from_file: None, from_rank: None, capture_mark: false, to: None, promo: None, suffix: None };
    if let Some(&l) = cs.last() {
        if l == '+' || l == '#' {
            parts.suffix = Some(l);
            cs.pop();
        }
    }
    let body: String = cs.iter().collect();
    if body == "O-O" {
        parts.castle = Some(0);
        return Some(parts);
    }
    if body == "O-O-O" {
        parts.castle = Some(1);
        return Some(parts);
    }
    // promotion
    if let Some(&l) = cs.last() {
        if let Some(p) = letter_piece(l) {
            parts.promo = Some(p);
            cs.pop();
            if cs.last() == Some(&'=') {
                cs.pop();
            }
        }
    }
    // destination
    let r = cs.pop()?;
    let f = cs.pop()?;
    if !('1'..='8').contains(&r) || !('a'..='h').contains(&f) {
        return None;
    }
    parts.to = Some((r as u8 - b'1') * 8 + (f as u8 - b'a'));
    if cs.last() == Some(&'x') {
        parts.capture_mark = true;
        cs.pop();
    }
    if let Some(&c) = cs.last() {
        if ('1'..='8').contains(&c) {
            parts.from_rank = Some(c as u8 - b'1');
            cs.pop();
        }
    }
    if let Some(&c) = cs.last() {
        if ('a'..='h').contains(&c) {
            parts.from_file = Some(c as u8 - b'a');
            cs.pop();
        }
    }
    if let Some(&c) = cs.last() {
        if let Some(p) = letter_piece(c) {
            parts.piece = Some(p);
            cs.pop();
        } else {
            return None;
        }
    }
    if !cs.is_empty() {
        return None;
    }
    Some(parts)
}

/// Does legal move `mv` of `pos` match every identifying component written in `parts`?
/// Castling matches either the O-O form or (library encoding) a king move naming the rook's square.
pub fn parts_match(pos: &RPos, mv: RMove, parts: &SanParts) -> bool {
    let piece = pos.sq[mv.from as usize].map(|x| x.1).unwrap_or(Piece::Pawn);
    if let Some(w) = parts.castle {
        return pos.is_castle(mv) && ((mv.to % 8 > mv.from % 8) == (w == 0));
    }
    if parts.piece.unwrap_or(Piece::Pawn) != piece {
        return false;
    }
    if let Some(f) = parts.from_file {
        if mv.from % 8 != f {
            return false;
        }
    }
    if let Some(r) = parts.from_rank {
        if mv.from / 8 != r {
            return false;
        }
    }
    if parts.to != Some(mv.to) {
        return false;
    }
    parts.promo == mv.promo
}
