//! Geometric definitions for C05 (attack / ray lookups), the `[bool; 64]` set model for C18 and
//! `i32` coordinate arithmetic for C19. Occupancies are passed as `u64` only as a container of 64
//! booleans (bit i = square i); no bitboard arithmetic is used to derive results.

use super::*;

#[inline]
pub fn bit(occ: u64, s: usize) -> bool {
    (occ >> s) & 1 == 1
}

/// Walk each ray from `s` up to and including the first occupied square.
pub fn slide(s: usize, occ: u64, dirs: &[(i32, i32)]) -> u64 {
    let (f, r) = fr(s);
    let mut out = 0u64;
    for &(df, dr) in dirs {
        let (mut cf, mut cr) = (f + df, r + dr);
        while on(cf, cr) {
            let t = idx(cf, cr);
            out |= 1u64 << t;
            if bit(occ, t) {
                break;
            }
            cf += df;
            cr += dr;
        }
    }
    out
}

pub fn rook_attacks(s: usize, occ: u64) -> u64 {
    slide(s, occ, &ROOK_D)
}
pub fn bishop_attacks(s: usize, occ: u64) -> u64 {
    slide(s, occ, &BISHOP_D)
}

pub fn leaper(s: usize, ds: &[(i32, i32)]) -> u64 {
    let (f, r) = fr(s);
    let mut out = 0u64;
    for &(df, dr) in ds {
        if on(f + df, r + dr) {
            out |= 1u64 << idx(f + df, r + dr);
        }
    }
    out
}

pub fn pawn_attacks(s: usize, c: Color) -> u64 {
    let d = fwd(c);
    leaper(s, &[(-1, d), (1, d)])
}

/// Pawn pushes: one step forward if empty; from the colour's second rank also two steps if both empty.
pub fn pawn_quiets(s: usize, c: Color, occ: u64) -> u64 {
    let (f, r) = fr(s);
    let d = fwd(c);
    let mut out = 0u64;
    if on(f, r + d) && !bit(occ, idx(f, r + d)) {
        out |= 1u64 << idx(f, r + d);
        if r == rel_rank(c, 2) && on(f, r + 2 * d) && !bit(occ, idx(f, r + 2 * d)) {
            out |= 1u64 << idx(f, r + 2 * d);
        }
    }
    out
}

pub fn aligned(a: usize, b: usize) -> Option<(i32, i32)> {
    if a == b {
        return None;
    }
    let ((af, ar), (bf, br)) = (fr(a), fr(b));
    let (df, dr) = (bf - af, br - ar);
    if df == 0 || dr == 0 || df.abs() == dr.abs() {
        Some((df.signum(), dr.signum()))
    } else {
        None
    }
}

/// Squares strictly between two aligned squares; empty when equal or not aligned.
pub fn between(a: usize, b: usize) -> u64 {
    let mut out = 0u64;
    if let Some((sf, sr)) = aligned(a, b) {
        let (mut f, mut r) = fr(a);
        f += sf;
        r += sr;
        while idx(f, r) != b {
            out |= 1u64 << idx(f, r);
            f += sf;
            r += sr;
        }
    }
    out
}

/// The full line (edge to edge) through two aligned squares, including both; empty when equal or
/// not aligned.
pub fn line(a: usize, b: usize) -> u64 {
    let mut out = 0u64;
    if let Some((sf, sr)) = aligned(a, b) {
        let (af, ar) = fr(a);
        for sign in [1, -1] {
            let (mut f, mut r) = (af, ar);
            while on(f, r) {
                out |= 1u64 << idx(f, r);
                f += sf * sign;
                r += sr * sign;
            }
        }
    }
    out
}

/// Bits of the occupancy that can influence a slider on `s` (interior ray squares, i.e. each ray
/// without its last square). Computed by walking, independently of the library's masks.
pub fn relevant_mask(s: usize, dirs: &[(i32, i32)]) -> u64 {
    let (f, r) = fr(s);
    let mut out = 0u64;
    for &(df, dr) in dirs {
        let (mut cf, mut cr) = (f + df, r + dr);
        while on(cf + df, cr + dr) {
            out |= 1u64 << idx(cf, cr);
            cf += df;
            cr += dr;
        }
    }
    out
}

/// `[bool; 64]` model of a set of squares.
#[derive(Clone, Copy, PartialEq, Eq, Debug)]
pub struct SetModel(pub [bool; 64]);

impl SetModel {
    pub fn from_u64(v: u64) -> SetModel {
        let mut a = [false; 64];
        for (i, x) in a.iter_mut().enumerate() {
            *x = bit(v, i);
        }
        SetModel(a)
    }
    pub fn to_u64(&self) -> u64 {
        let mut v = 0u64;
        for i in 0..64 {
            if self.0[i] {
                v += 1u64 << i;
            }
        }
        v
    }
    pub fn map2(&self, o: &SetModel, f: impl Fn(bool, bool) -> bool) -> SetModel {
        let mut a = [false; 64];
        for i in 0..64 {
            a[i] = f(self.0[i], o.0[i]);
        }
        SetModel(a)
    }
    pub fn members(&self) -> Vec<usize> {
        (0..64).filter(|&i| self.0[i]).collect()
    }
    pub fn len(&self) -> usize {
        self.0.iter().filter(|&&b| b).count()
    }
}
