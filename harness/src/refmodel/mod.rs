//! Independent reference model of chess / Chess960 rules.
//!
//! Deliberately written in the opposite style to the library: an 8x8 mailbox, integer
//! (file, rank) arithmetic, ray walking by loops, make-and-test legality. No bitboards, no
//! tables, and no function of `cozy_chess` is used except the plain data enums needed to talk to
//! the API (`Color`, `Piece`, `Square`, `File`, `Rank`, `Move`) and the public accessors read by
//! `RPos::observe`.

pub mod fen;
pub mod geom;
pub mod san;

use cozy_chess::{Board, Color, File, Move, Piece, Rank, Square};

pub type Pc = (Color, Piece);

#[derive(Clone, Copy, PartialEq, Eq, Debug, Hash, PartialOrd, Ord)]
pub struct RMove {
    pub from: u8,
    pub to: u8,
    pub promo: Option<Piece>,
}

#[derive(Clone, PartialEq, Eq, Debug, Hash)]
pub struct RPos {
    /// index = rank * 8 + file, a1 = 0
    pub sq: [Option<Pc>; 64],
    pub stm: Color,
    /// `rights[color][0]` = short (king side) rook file, `[1]` = long
    pub rights: [[Option<u8>; 2]; 2],
    /// file of the pawn that has just advanced two squares
    pub ep: Option<u8>,
    pub half: u32,
    pub full: u32,
}

pub const KNIGHT_D: [(i32, i32); 8] = [(1, 2), (2, 1), (2, -1), (1, -2), (-1, -2), (-2, -1), (-2, 1), (-1, 2)];
pub const KING_D: [(i32, i32); 8] = [(1, 0), (1, 1), (0, 1), (-1, 1), (-1, 0), (-1, -1), (0, -1), (1, -1)];
pub const ROOK_D: [(i32, i32); 4] = [(1, 0), (-1, 0), (0, 1), (0, -1)];
pub const BISHOP_D: [(i32, i32); 4] = [(1, 1), (1, -1), (-1, 1), (-1, -1)];

#[inline]
pub fn ci(c: Color) -> usize {
    match c {
        Color::White => 0,
        Color::Black => 1,
    }
}
#[inline]
pub fn other(c: Color) -> Color {
    match c {
        Color::White => Color::Black,
        Color::Black => Color::White,
    }
}
#[inline]
pub fn on(f: i32, r: i32) -> bool {
    (0..8).contains(&f) && (0..8).contains(&r)
}
#[inline]
pub fn idx(f: i32, r: i32) -> usize {
    (r * 8 + f) as usize
}
#[inline]
pub fn fr(s: usize) -> (i32, i32) {
    ((s % 8) as i32, (s / 8) as i32)
}
/// rank index (0-based) of `n`-th rank (1-based) from `c`'s point of view
#[inline]
pub fn rel_rank(c: Color, n: i32) -> i32 {
    match c {
        Color::White => n - 1,
        Color::Black => 8 - n,
    }
}
#[inline]
pub fn fwd(c: Color) -> i32 {
    match c {
        Color::White => 1,
        Color::Black => -1,
    }
}

pub fn lib_sq(s: usize) -> Square {
    Square::ALL[s]
}
pub fn lib_file(f: u8) -> File {
    File::ALL[f as usize]
}
pub fn lib_rank(r: u8) -> Rank {
    Rank::ALL[r as usize]
}
pub fn sq_name(s: usize) -> String {
    let (f, r) = fr(s);
    format!("{}{}", (b'a' + f as u8) as char, (b'1' + r as u8) as char)
}
pub fn piece_letter(p: Piece) -> char {
    match p {
        Piece::Pawn => 'p',
        Piece::Knight => 'n',
        Piece::Bishop => 'b',
        Piece::Rook => 'r',
        Piece::Queen => 'q',
        Piece::King => 'k',
    }
}

impl RMove {
    pub fn lib(&self) -> Move {
        Move { from: lib_sq(self.from as usize), to: lib_sq(self.to as usize), promotion: self.promo }
    }
    pub fn of(m: Move) -> RMove {
        RMove { from: m.from as u8, to: m.to as u8, promo: m.promotion }
    }
    pub fn text(&self) -> String {
        let mut s = format!("{}{}", sq_name(self.from as usize), sq_name(self.to as usize));
        if let Some(p) = self.promo {
            s.push(piece_letter(p));
        }
        s
    }
}

#[derive(Clone, Copy, PartialEq, Eq, Debug)]
pub enum RStatus {
    Won,
    Drawn,
    Ongoing,
}

impl RPos {
    pub fn empty() -> RPos {
        RPos { sq: [None; 64], stm: Color::White, rights: [[None; 2]; 2], ep: None, half: 0, full: 1 }
    }

    /// Read a library board through its public accessors only.
    pub fn observe(b: &Board) -> RPos {
        let mut p = RPos::empty();
        for s in 0..64 {
            let sq = lib_sq(s);
            p.sq[s] = match (b.color_on(sq), b.piece_on(sq)) {
                (Some(c), Some(pc)) => Some((c, pc)),
                (None, None) => None,
                // inconsistent accessors: make it visible as a model/board mismatch
                (Some(c), None) => Some((c, Piece::King)),
                (None, Some(pc)) => Some((Color::White, pc)),
            };
        }
        p.stm = b.side_to_move();
        for &c in &[Color::White, Color::Black] {
            let r = b.castle_rights(c);
            p.rights[ci(c)][0] = r.short.map(|f| f as u8);
            p.rights[ci(c)][1] = r.long.map(|f| f as u8);
        }
        p.ep = b.en_passant().map(|f| f as u8);
        p.half = b.halfmove_clock() as u32;
        p.full = b.fullmove_number() as u32;
        p
    }

    pub fn king_sq(&self, c: Color) -> Option<usize> {
        (0..64).find(|&s| self.sq[s] == Some((c, Piece::King)))
    }

    pub fn count(&self, c: Color, p: Piece) -> usize {
        (0..64).filter(|&s| self.sq[s] == Some((c, p))).count()
    }

    pub fn occupied_count(&self) -> usize {
        (0..64).filter(|&s| self.sq[s].is_some()).count()
    }

    /// Enemy pieces (colour `by`) that attack square `t` in the position as it stands.
    pub fn attackers(&self, t: usize, by: Color) -> Vec<usize> {
        let mut v = Vec::new();
        let (tf, tr) = fr(t);
        for &(df, dr) in &KNIGHT_D {
            let (f, r) = (tf + df, tr + dr);
            if on(f, r) && self.sq[idx(f, r)] == Some((by, Piece::Knight)) {
                v.push(idx(f, r));
            }
        }
        for &(df, dr) in &KING_D {
            let (f, r) = (tf + df, tr + dr);
            if on(f, r) && self.sq[idx(f, r)] == Some((by, Piece::King)) {
                v.push(idx(f, r));
            }
        }
        // a pawn of colour `by` attacks t from one rank behind t (seen from `by`)
        for df in [-1, 1] {
            let (f, r) = (tf + df, tr - fwd(by));
            if on(f, r) && self.sq[idx(f, r)] == Some((by, Piece::Pawn)) {
                v.push(idx(f, r));
            }
        }
        for (dirs, a, b) in [(&ROOK_D, Piece::Rook, Piece::Queen), (&BISHOP_D, Piece::Bishop, Piece::Queen)] {
            for &(df, dr) in dirs.iter() {
                let (mut f, mut r) = (tf + df, tr + dr);
                while on(f, r) {
                    if let Some((c, p)) = self.sq[idx(f, r)] {
                        if c == by && (p == a || p == b) {
                            v.push(idx(f, r));
                        }
                        break;
                    }
                    f += df;
                    r += dr;
                }
            }
        }
        v
    }

    pub fn attacked(&self, t: usize, by: Color) -> bool {
        !self.attackers(t, by).is_empty()
    }

    pub fn in_check(&self, c: Color) -> bool {
        match self.king_sq(c) {
            Some(k) => self.attacked(k, other(c)),
            None => false,
        }
    }

    /// Pieces attacking the mover's king.
    pub fn checkers(&self) -> Vec<usize> {
        let mut v = match self.king_sq(self.stm) {
            Some(k) => self.attackers(k, other(self.stm)),
            None => Vec::new(),
        };
        v.sort();
        v
    }

    /// Pieces of either colour standing alone between the mover's king and an enemy slider
    /// aligned with it on a line that slider moves along. Every aligned enemy slider is
    /// considered (an enemy slider may itself be the lone piece in front of another one).
    pub fn pinned(&self) -> Vec<usize> {
        let mut out = Vec::new();
        let k = match self.king_sq(self.stm) {
            Some(k) => k,
            None => return out,
        };
        let (kf, kr) = fr(k);
        let them = other(self.stm);
        for s in 0..64 {
            let (c, p) = match self.sq[s] {
                Some(x) => x,
                None => continue,
            };
            if c != them {
                continue;
            }
            let (f, r) = fr(s);
            let (df, dr) = (f - kf, r - kr);
            let ortho = (df == 0) != (dr == 0);
            let diag = df != 0 && df.abs() == dr.abs();
            let moves_along = match p {
                Piece::Rook => ortho,
                Piece::Bishop => diag,
                Piece::Queen => ortho || diag,
                _ => false,
            };
            if !moves_along {
                continue;
            }
            let (sf, sr) = (df.signum(), dr.signum());
            let (mut cf, mut cr) = (kf + sf, kr + sr);
            let mut between = Vec::new();
            while (cf, cr) != (f, r) {
                if self.sq[idx(cf, cr)].is_some() {
                    between.push(idx(cf, cr));
                }
                cf += sf;
                cr += sr;
            }
            if between.len() == 1 && !out.contains(&between[0]) {
                out.push(between[0]);
            }
        }
        out.sort();
        out
    }

    fn push_pawn_move(v: &mut Vec<RMove>, from: usize, to: usize, c: Color) {
        let (_, tr) = fr(to);
        if tr == rel_rank(c, 8) {
            for p in [Piece::Knight, Piece::Bishop, Piece::Rook, Piece::Queen] {
                v.push(RMove { from: from as u8, to: to as u8, promo: Some(p) });
            }
        } else {
            v.push(RMove { from: from as u8, to: to as u8, promo: None });
        }
    }

    /// En-passant target square (the square passed over) for the side to move, if an EP file is set.
    pub fn ep_target(&self) -> Option<usize> {
        self.ep.map(|f| idx(f as i32, rel_rank(self.stm, 6)))
    }

    /// Pseudo-legal moves of the side to move (castling excluded), library encoding.
    pub fn pseudo_moves(&self) -> Vec<RMove> {
        let us = self.stm;
        let mut v = Vec::with_capacity(64);
        for s in 0..64 {
            let p = match self.sq[s] {
                Some((c, p)) if c == us => p,
                _ => continue,
            };
            let (f, r) = fr(s);
            match p {
                Piece::Pawn => {
                    let d = fwd(us);
                    if on(f, r + d) && self.sq[idx(f, r + d)].is_none() {
                        Self::push_pawn_move(&mut v, s, idx(f, r + d), us);
                        if r == rel_rank(us, 2) && on(f, r + 2 * d) && self.sq[idx(f, r + 2 * d)].is_none() {
                            v.push(RMove { from: s as u8, to: idx(f, r + 2 * d) as u8, promo: None });
                        }
                    }
                    for df in [-1, 1] {
                        if !on(f + df, r + d) {
                            continue;
                        }
                        let t = idx(f + df, r + d);
                        match self.sq[t] {
                            Some((c, tp)) if c != us && tp != Piece::King => Self::push_pawn_move(&mut v, s, t, us),
                            None => {
                                if Some(t) == self.ep_target() && r == rel_rank(us, 5) {
                                    // the pawn to be removed stands beside the capturer
                                    if self.sq[idx(f + df, r)] == Some((other(us), Piece::Pawn)) {
                                        v.push(RMove { from: s as u8, to: t as u8, promo: None });
                                    }
                                }
                            }
                            _ => {}
                        }
                    }
                }
                Piece::Knight | Piece::King => {
                    let ds = if p == Piece::Knight { &KNIGHT_D } else { &KING_D };
                    for &(df, dr) in ds.iter() {
                        if !on(f + df, r + dr) {
                            continue;
                        }
                        let t = idx(f + df, r + dr);
                        match self.sq[t] {
                            Some((c, tp)) => {
                                if c != us && tp != Piece::King {
                                    v.push(RMove { from: s as u8, to: t as u8, promo: None });
                                }
                            }
                            None => v.push(RMove { from: s as u8, to: t as u8, promo: None }),
                        }
                    }
                }
                Piece::Bishop | Piece::Rook | Piece::Queen => {
                    let mut dirs: Vec<(i32, i32)> = Vec::new();
                    if p != Piece::Bishop {
                        dirs.extend_from_slice(&ROOK_D);
                    }
                    if p != Piece::Rook {
                        dirs.extend_from_slice(&BISHOP_D);
                    }
                    for (df, dr) in dirs {
                        let (mut cf, mut cr) = (f + df, r + dr);
                        while on(cf, cr) {
                            let t = idx(cf, cr);
                            match self.sq[t] {
                                None => v.push(RMove { from: s as u8, to: t as u8, promo: None }),
                                Some((c, tp)) => {
                                    if c != us && tp != Piece::King {
                                        v.push(RMove { from: s as u8, to: t as u8, promo: None });
                                    }
                                    break;
                                }
                            }
                            cf += df;
                            cr += dr;
                        }
                    }
                }
            }
        }
        v
    }

    /// Castling by the literal FIDE Chess960 rule. `wing` 0 = short (king to g, rook to f), 1 = long
    /// (king to c, rook to d). Returns the move in library encoding (king to own rook's square).
    pub fn castle_move(&self, wing: usize) -> Option<RMove> {
        let us = self.stm;
        let rf = self.rights[ci(us)][wing]? as i32;
        let br = rel_rank(us, 1);
        let k = self.king_sq(us)?;
        let (kf, kr) = fr(k);
        if kr != br {
            return None;
        }
        let rook = idx(rf, br);
        if self.sq[rook] != Some((us, Piece::Rook)) {
            return None;
        }
        let (kdest, rdest) = if wing == 0 { (6, 5) } else { (2, 3) };
        let them = other(us);
        // the king is not in check
        if self.attacked(k, them) {
            return None;
        }
        // no square from the king's square to its destination (inclusive) is attacked
        let (lo, hi) = (kf.min(kdest), kf.max(kdest));
        for f in lo..=hi {
            if self.attacked(idx(f, br), them) {
                return None;
            }
        }
        // every square between king start/dest and rook start/dest (inclusive) is vacant apart
        // from the castling king and rook
        let (lo2, hi2) = (rf.min(rdest), rf.max(rdest));
        for f in lo.min(lo2)..=hi.max(hi2) {
            let in_king_path = (lo..=hi).contains(&f);
            let in_rook_path = (lo2..=hi2).contains(&f);
            if !(in_king_path || in_rook_path) {
                continue;
            }
            let s = idx(f, br);
            if s != k && s != rook && self.sq[s].is_some() {
                return None;
            }
        }
        let mv = RMove { from: k as u8, to: rook as u8, promo: None };
        // the king is not in check in the resulting position
        let after = self.make(mv);
        let nk = idx(kdest, br);
        if after.attacked(nk, them) {
            return None;
        }
        Some(mv)
    }

    pub fn is_castle(&self, mv: RMove) -> bool {
        match (self.sq[mv.from as usize], self.sq[mv.to as usize]) {
            (Some((c, Piece::King)), Some((c2, Piece::Rook))) => c == c2,
            _ => false,
        }
    }

    pub fn is_ep_capture(&self, mv: RMove) -> bool {
        matches!(self.sq[mv.from as usize], Some((_, Piece::Pawn)))
            && self.sq[mv.to as usize].is_none()
            && (mv.from % 8) != (mv.to % 8)
    }

    pub fn is_capture(&self, mv: RMove) -> bool {
        if self.is_castle(mv) {
            return false;
        }
        self.sq[mv.to as usize].is_some() || self.is_ep_capture(mv)
    }

    /// All legal moves (library encoding: castling = king to own rook's square).
    pub fn legal_moves(&self) -> Vec<RMove> {
        let us = self.stm;
        let mut out = Vec::new();
        for mv in self.pseudo_moves() {
            let after = self.make(mv);
            if !after.in_check(us) {
                out.push(mv);
            }
        }
        for wing in 0..2 {
            if let Some(mv) = self.castle_move(wing) {
                out.push(mv);
            }
        }
        out
    }

    /// Rule-book successor. `mv` must be pseudo-legal (or a castling move) in `self`.
    pub fn make(&self, mv: RMove) -> RPos {
        let mut n = self.clone();
        let us = self.stm;
        let them = other(us);
        let (from, to) = (mv.from as usize, mv.to as usize);
        let piece = self.sq[from].map(|x| x.1).unwrap_or(Piece::Pawn);
        let castle = self.is_castle(mv);
        let capture = self.is_capture(mv);
        let br = rel_rank(us, 1);

        if castle {
            let short = (to % 8) > (from % 8);
            let (kd, rd) = if short { (6, 5) } else { (2, 3) };
            n.sq[from] = None;
            n.sq[to] = None;
            n.sq[idx(kd, br)] = Some((us, Piece::King));
            n.sq[idx(rd, br)] = Some((us, Piece::Rook));
        } else {
            if self.is_ep_capture(mv) {
                let (tf, _) = fr(to);
                let (_, frr) = fr(from);
                n.sq[idx(tf, frr)] = None;
            }
            n.sq[from] = None;
            n.sq[to] = Some((us, mv.promo.unwrap_or(piece)));
        }

        // castling rights
        if piece == Piece::King {
            n.rights[ci(us)] = [None, None];
        }
        for &c in &[Color::White, Color::Black] {
            let cbr = rel_rank(c, 1);
            for w in 0..2 {
                if let Some(f) = n.rights[ci(c)][w] {
                    let rsq = idx(f as i32, cbr);
                    if from == rsq || to == rsq {
                        n.rights[ci(c)][w] = None;
                    }
                }
            }
        }

        // en passant file: exactly after a two-square pawn advance
        n.ep = None;
        if piece == Piece::Pawn {
            let (ff, frr) = fr(from);
            let (_, tr) = fr(to);
            if (tr - frr).abs() == 2 {
                n.ep = Some(ff as u8);
            }
        }

        // clocks
        if piece == Piece::Pawn || capture {
            n.half = 0;
        } else {
            n.half = (self.half + 1).min(100);
        }
        if us == Color::Black {
            n.full = (self.full + 1).min(65535);
        }
        n.stm = them;
        n
    }

    /// Null move successor (only meaningful when not in check).
    pub fn make_null(&self) -> RPos {
        let mut n = self.clone();
        n.ep = None;
        n.half = (self.half + 1).min(100);
        if self.stm == Color::Black {
            n.full = (self.full + 1).min(65535);
        }
        n.stm = other(self.stm);
        n
    }

    pub fn status(&self) -> RStatus {
        let any = !self.legal_moves().is_empty();
        let check = self.in_check(self.stm);
        if !any {
            if check {
                RStatus::Won
            } else {
                RStatus::Drawn
            }
        } else if self.half >= 100 {
            RStatus::Drawn
        } else {
            RStatus::Ongoing
        }
    }

    /// Is an en-passant capture legal in this position?
    pub fn ep_capture_legal(&self) -> bool {
        self.legal_moves().iter().any(|&m| self.is_ep_capture(m))
    }

    /// The C06 list, clause by clause; `Err(clause)` names the first failing clause.
    pub fn structurally_sound(&self) -> Result<(), &'static str> {
        for &c in &[Color::White, Color::Black] {
            if self.count(c, Piece::King) != 1 {
                return Err("kings-per-side");
            }
        }
        let wk = self.king_sq(Color::White).unwrap();
        let bk = self.king_sq(Color::Black).unwrap();
        let ((wf, wr), (bf, br)) = (fr(wk), fr(bk));
        if (wf - bf).abs() <= 1 && (wr - br).abs() <= 1 {
            return Err("kings-adjacent");
        }
        for &c in &[Color::White, Color::Black] {
            let total = (0..64).filter(|&s| matches!(self.sq[s], Some((cc, _)) if cc == c)).count();
            if total > 16 {
                return Err("more-than-16-pieces");
            }
            if self.count(c, Piece::Pawn) > 8 {
                return Err("more-than-8-pawns");
            }
        }
        for s in (0..8).chain(56..64) {
            if matches!(self.sq[s], Some((_, Piece::Pawn))) {
                return Err("pawn-on-back-rank");
            }
        }
        if self.in_check(other(self.stm)) {
            return Err("side-not-to-move-in-check");
        }
        for &c in &[Color::White, Color::Black] {
            let br = rel_rank(c, 1);
            for w in 0..2 {
                if let Some(f) = self.rights[ci(c)][w] {
                    let k = self.king_sq(c).unwrap();
                    let (kf, kr) = fr(k);
                    if kr != br {
                        return Err("right-king-off-back-rank");
                    }
                    if self.sq[idx(f as i32, br)] != Some((c, Piece::Rook)) {
                        return Err("right-without-own-rook");
                    }
                    let ok_side = if w == 0 { (f as i32) > kf } else { (f as i32) < kf };
                    if !ok_side {
                        return Err("right-on-wrong-side");
                    }
                }
            }
        }
        if let Some(f) = self.ep {
            let them = other(self.stm);
            // the pawn that has just advanced belongs to the side not to move
            let pawn = idx(f as i32, rel_rank(them, 4));
            let passed = idx(f as i32, rel_rank(them, 3));
            let origin = idx(f as i32, rel_rank(them, 2));
            if self.sq[pawn] != Some((them, Piece::Pawn)) {
                return Err("ep-without-pawn");
            }
            if self.sq[passed].is_some() {
                return Err("ep-passed-square-occupied");
            }
            if self.sq[origin].is_some() {
                return Err("ep-origin-occupied");
            }
        }
        if self.half > 100 {
            return Err("halfmove-out-of-range");
        }
        if self.full < 1 || self.full > 65535 {
            return Err("fullmove-out-of-range");
        }
        Ok(())
    }

    /// Position key without clocks (placement, side, rights, EP) as text.
    pub fn key_text(&self) -> String {
        let s = fen::write_fen(self, true);
        let mut it = s.rsplitn(3, ' ');
        it.next();
        it.next();
        it.next().unwrap_or("").to_string()
    }

    /// Are all castling rights "orthodox" (king on e-file, rooks on a/h)?
    pub fn orthodox_rights(&self) -> bool {
        for &c in &[Color::White, Color::Black] {
            let r = self.rights[ci(c)];
            if r[0].is_some() || r[1].is_some() {
                match self.king_sq(c) {
                    Some(k) if k % 8 == 4 => {}
                    _ => return false,
                }
            }
            if let Some(f) = r[0] {
                if f != 7 {
                    return false;
                }
            }
            if let Some(f) = r[1] {
                if f != 0 {
                    return false;
                }
            }
        }
        true
    }

    /// Can every right be written in plain FEN (rook on a/h)?
    pub fn plain_fen_rights(&self) -> bool {
        for c in 0..2 {
            if let Some(f) = self.rights[c][0] {
                if f != 7 {
                    return false;
                }
            }
            if let Some(f) = self.rights[c][1] {
                if f != 0 {
                    return false;
                }
            }
        }
        true
    }
}

/// perft on the model alone (self-test against published counts).
pub fn perft(p: &RPos, depth: u32) -> u64 {
    if depth == 0 {
        return 1;
    }
    let ms = p.legal_moves();
    if depth == 1 {
        return ms.len() as u64;
    }
    ms.iter().map(|&m| perft(&p.make(m), depth - 1)).sum()
}
