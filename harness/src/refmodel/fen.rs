//! Canonical FEN / Shredder-FEN writer and a structurally strict, lexically tolerant decoder.

use super::*;

pub fn pc_char(c: Color, p: Piece) -> char {
    let ch = piece_letter(p);
    if c == Color::White {
        ch.to_ascii_uppercase()
    } else {
        ch
    }
}

pub fn write_placement(p: &RPos) -> String {
    let mut s = String::new();
    for r in (0..8).rev() {
        let mut empty = 0;
        for f in 0..8 {
            match p.sq[idx(f, r)] {
                Some((c, pc)) => {
                    if empty > 0 {
                        s.push((b'0' + empty) as char);
                        empty = 0;
                    }
                    s.push(pc_char(c, pc));
                }
                None => empty += 1,
            }
        }
        if empty > 0 {
            s.push((b'0' + empty) as char);
        }
        if r > 0 {
            s.push('/');
        }
    }
    s
}

pub fn write_rights(p: &RPos, shredder: bool) -> String {
    let mut s = String::new();
    for (c, up) in [(0usize, true), (1usize, false)] {
        for w in 0..2 {
            if let Some(f) = p.rights[c][w] {
                let ch = if shredder {
                    (b'a' + f) as char
                } else if w == 0 {
                    'k'
                } else {
                    'q'
                };
                s.push(if up { ch.to_ascii_uppercase() } else { ch });
            }
        }
    }
    if s.is_empty() {
        s.push('-');
    }
    s
}

pub fn write_ep(p: &RPos) -> String {
    match p.ep {
        Some(f) => {
            // the square passed over, seen from the side to move it is on its sixth rank
            let r = rel_rank(p.stm, 6);
            format!("{}{}", (b'a' + f) as char, (b'1' + r as u8) as char)
        }
        None => "-".to_string(),
    }
}

/// The canonical six-field record.
pub fn write_fen(p: &RPos, shredder: bool) -> String {
    format!(
        "{} {} {} {} {} {}",
        write_placement(p),
        if p.stm == Color::White { "w" } else { "b" },
        write_rights(p, shredder),
        write_ep(p),
        p.half,
        p.full
    )
}

#[derive(Clone, Copy, PartialEq, Eq, Debug)]
pub enum Field {
    Placement,
    Side,
    Castling,
    EnPassant,
    Halfmove,
    Fullmove,
    TooFew,
    TooMany,
}

#[derive(Clone, Copy, PartialEq, Eq, Debug)]
pub enum Notation {
    Plain,
    Shredder,
}

/// Decode the placement field: exactly eight '/'-separated ranks of exactly eight files.
pub fn decode_placement(s: &str) -> Result<[Option<Pc>; 64], ()> {
    let mut sq = [None; 64];
    let ranks: Vec<&str> = s.split('/').collect();
    if ranks.len() != 8 {
        return Err(());
    }
    for (i, row) in ranks.iter().enumerate() {
        let r = 7 - i as i32;
        let mut f = 0i32;
        for ch in row.chars() {
            if let Some(d) = ch.to_digit(10) {
                if !ch.is_ascii_digit() {
                    return Err(());
                }
                f += d as i32;
                if f > 8 {
                    return Err(());
                }
            } else {
                let p = match ch.to_ascii_lowercase() {
                    'p' => Piece::Pawn,
                    'n' => Piece::Knight,
                    'b' => Piece::Bishop,
                    'r' => Piece::Rook,
                    'q' => Piece::Queen,
                    'k' => Piece::King,
                    _ => return Err(()),
                };
                if !ch.is_ascii() || f >= 8 {
                    return Err(());
                }
                let c = if ch.is_ascii_uppercase() { Color::White } else { Color::Black };
                sq[idx(f, r)] = Some((c, p));
                f += 1;
            }
        }
        if f != 8 {
            return Err(());
        }
    }
    Ok(sq)
}

fn decode_uint(s: &str) -> Option<u64> {
    // tolerant: optional '+', at least one ASCII digit, leading zeros allowed
    let t = s.strip_prefix('+').unwrap_or(s);
    if t.is_empty() || !t.bytes().all(|b| b.is_ascii_digit()) {
        return None;
    }
    let mut v: u64 = 0;
    for b in t.bytes() {
        v = v.saturating_mul(10).saturating_add((b - b'0') as u64);
    }
    Some(v)
}

/// Decode a six-field record into the position it denotes. The error names the first field (in
/// record order) that is malformed *lexically/structurally*; support of castling / EP fields by the
/// position is judged separately by `RPos::structurally_sound`.
pub fn decode_fen(text: &str, notation: Notation) -> Result<RPos, Field> {
    let fields: Vec<&str> = text.split(' ').collect();
    if fields.len() < 6 {
        return Err(Field::TooFew);
    }
    if fields.len() > 6 {
        return Err(Field::TooMany);
    }
    let mut p = RPos::empty();
    p.sq = decode_placement(fields[0]).map_err(|_| Field::Placement)?;
    p.stm = match fields[1] {
        "w" => Color::White,
        "b" => Color::Black,
        _ => return Err(Field::Side),
    };
    // castling
    let cs = fields[2];
    if cs.is_empty() {
        return Err(Field::Castling);
    }
    if cs != "-" {
        for ch in cs.chars() {
            if !ch.is_ascii_alphabetic() {
                return Err(Field::Castling);
            }
            let c = if ch.is_ascii_uppercase() { Color::White } else { Color::Black };
            let lc = ch.to_ascii_lowercase();
            let (wing, file) = match notation {
                Notation::Plain => match lc {
                    'k' => (0usize, 7u8),
                    'q' => (1usize, 0u8),
                    _ => return Err(Field::Castling),
                },
                Notation::Shredder => {
                    if !('a'..='h').contains(&lc) {
                        return Err(Field::Castling);
                    }
                    let file = lc as u8 - b'a';
                    // the wing is determined by the side of the king the rook stands on
                    let k = match p.king_sq(c) {
                        Some(k) => k,
                        None => return Err(Field::Castling),
                    };
                    let kf = (k % 8) as u8;
                    (if file > kf { 0 } else { 1 }, file)
                }
            };
            if p.rights[ci(c)][wing].is_some() {
                return Err(Field::Castling);
            }
            p.rights[ci(c)][wing] = Some(file);
        }
    }
    // en passant
    let es = fields[3];
    if es != "-" {
        let b: Vec<char> = es.chars().collect();
        if b.len() != 2 || !('a'..='h').contains(&b[0]) || !('1'..='8').contains(&b[1]) {
            return Err(Field::EnPassant);
        }
        let f = b[0] as u8 - b'a';
        let r = (b[1] as u8 - b'1') as i32;
        if r != rel_rank(p.stm, 6) {
            return Err(Field::EnPassant);
        }
        p.ep = Some(f);
    }
    match decode_uint(fields[4]) {
        Some(v) if v <= 100 => p.half = v as u32,
        _ => return Err(Field::Halfmove),
    }
    match decode_uint(fields[5]) {
        Some(v) if (1..=65535).contains(&v) => p.full = v as u32,
        _ => return Err(Field::Fullmove),
    }
    Ok(p)
}

/// Structural requirement of C08 alone: six non-empty space-separated fields whose placement
/// field has exactly eight ranks of exactly eight files.
pub fn structure_ok(text: &str) -> bool {
    let fields: Vec<&str> = text.split(' ').collect();
    fields.len() == 6 && fields.iter().all(|f| !f.is_empty()) && decode_placement(fields[0]).is_ok()
}

/// Parse a canonical record written by `write_fen` (used by replay and the corpus reader); accepts
/// both notations.
pub fn decode_any(text: &str) -> Option<RPos> {
    decode_fen(text, Notation::Plain).ok().or_else(|| decode_fen(text, Notation::Shredder).ok())
}
