//! W-text: string generators and mutators for the parsers.

use crate::rng::Rng;

pub const FEN_ALPHABET: &[char] = &[
    'p', 'n', 'b', 'r', 'q', 'k', 'P', 'N', 'B', 'R', 'Q', 'K', '/', '/', '1', '2', '3', '4', '5', '6', '7', '8', '9', '0', ' ', ' ', ' ',
    'w', 'b', '-', '-', 'a', 'c', 'd', 'e', 'f', 'g', 'h', 'A', 'H', 'x', '+', '\t', '\n', 'é', '\u{0}', '８', 'Ｋ', '\u{301}', '𝟠',
];

pub const ODD_CHARS: &[char] = &[
    'é', 'ß', '\u{0}', '\u{7f}', '\u{a0}', '\u{2003}', '８', '１', 'Ｋ', 'ｗ', '\u{301}', '\u{200b}', '𝟠', '🙂', '\u{10FFFF}', '\u{FEFF}', 'İ', 'ı', 'K',
    '٣', '۸', '\t', '\n', '\r', ' ',
];

pub fn random_char(rng: &mut Rng) -> char {
    loop {
        let v = match rng.below(4) {
            0 => rng.below(128) as u32,
            1 => rng.below(0x800) as u32,
            2 => rng.below(0x10000) as u32,
            _ => rng.below(0x110000) as u32,
        };
        if let Some(c) = char::from_u32(v) {
            return c;
        }
    }
}

pub fn random_string(rng: &mut Rng, alphabet: &[char], max_len: usize) -> String {
    let n = rng.usize(max_len + 1);
    (0..n).map(|_| *rng.pick(alphabet)).collect()
}

pub fn random_unicode(rng: &mut Rng, max_len: usize) -> String {
    let n = rng.usize(max_len + 1);
    (0..n).map(|_| random_char(rng)).collect()
}

/// One character-level mutation of `s` drawn from `alphabet` (+ odd characters).
pub fn mutate(rng: &mut Rng, s: &str, alphabet: &[char]) -> String {
    let mut cs: Vec<char> = s.chars().collect();
    let pick_char = |rng: &mut Rng| -> char {
        match rng.below(10) {
            0 => *rng.pick(ODD_CHARS),
            1 => random_char(rng),
            _ => *rng.pick(alphabet),
        }
    };
    match rng.below(9) {
        0 => {
            let i = rng.usize(cs.len() + 1);
            let c = pick_char(rng);
            cs.insert(i, c);
        }
        1 if !cs.is_empty() => {
            let i = rng.usize(cs.len());
            cs.remove(i);
        }
        2 if !cs.is_empty() => {
            let i = rng.usize(cs.len());
            let c = cs[i];
            cs.insert(i, c);
        }
        3 if cs.len() >= 2 => {
            let i = rng.usize(cs.len() - 1);
            cs.swap(i, i + 1);
        }
        4 if !cs.is_empty() => {
            let i = rng.usize(cs.len());
            let c = cs[i];
            cs[i] = if c.is_ascii_uppercase() { c.to_ascii_lowercase() } else { c.to_ascii_uppercase() };
        }
        5 if !cs.is_empty() => {
            let i = rng.usize(cs.len());
            cs[i] = pick_char(rng);
        }
        6 => {
            // append / prepend
            let c = pick_char(rng);
            if rng.chance(1, 2) {
                cs.push(c)
            } else {
                cs.insert(0, c)
            }
        }
        7 if !cs.is_empty() => {
            // truncate
            let i = rng.usize(cs.len());
            cs.truncate(i);
        }
        _ => {
            // long digit run / repeated separator
            let i = rng.usize(cs.len() + 1);
            let c = *rng.pick(&['9', '0', ' ', '/', '1']);
            let n = 1 + rng.usize(40);
            for _ in 0..n {
                cs.insert(i, c);
            }
        }
    }
    cs.into_iter().collect()
}

pub fn mutate_n(rng: &mut Rng, s: &str, alphabet: &[char], n: usize) -> String {
    let mut t = s.to_string();
    for _ in 0..n {
        t = mutate(rng, &t, alphabet);
    }
    t
}

/// All strings over `alphabet` with length <= `max_len`, visited through `f`.
pub fn for_all_strings(alphabet: &[char], max_len: usize, f: &mut dyn FnMut(&str)) {
    fn rec(alphabet: &[char], cur: &mut String, left: usize, f: &mut dyn FnMut(&str)) {
        f(cur);
        if left == 0 {
            return;
        }
        for &c in alphabet {
            cur.push(c);
            rec(alphabet, cur, left - 1, f);
            cur.pop();
        }
    }
    let mut cur = String::new();
    rec(alphabet, &mut cur, max_len, f);
}
