//! W-text: string generators and mutators for the parsers.

use crate::rng::Rng;

pub const FEN_ALPHABET: &[char] = &[
    'p', 'n', 'b', 'r', 'q', 'k', 'P', 'N', 'B', 'R', 'Q', 'K', '/', '/', '1', '2', '3', '4', '5', '6', '7', '8', '9', '0', ' ', ' ', ' ',
    'w', 'b', '-', '-', 'a', 'c', 'd', 'e', 'f', 'g', 'h', 'A', 'H', 'x', '+', '\t', '\n', 'é', '\u{0}', '８', 'Ｋ', '\u{301}', '𝟠',
];

pub const ODD_CHARS: &[char] = &[
    'é', 'ß', '\u{0}', '\u{7f}', '\u{a0}', '\u{2003}', '８', '１', 'Ｋ', 'ｗ', '\u{301}', '\u{200b}', '𝟠', '🙂', '\u{10FFFF}', '\u{FEFF}', 'İ', 'ı', 'K',
    '٣', '۸', '\t', '\n', '\r', ' ',
];

pub fn random_char(rng: &mut Rng) -> char {
    loop {
        let v = match rng.below(4) {
            0 => rng.below(128) as u32,
            1 => rng.below(0x800) as u32,
            2 => rng.below(0x10000) as u32,
            _ => rng.below(0x110000) as u32,
        };
        if let Some(c) = char::from_u32(v) {
            return c;
        }
    }
}

pub fn random_string(rng: &mut Rng, alphabet: &[char], max_len: usize) -> String {
    let n = rng.usize(max_len + 1);
    (0..n).map(|_| *rng.pick(alphabet)).collect()
}

pub fn random_unicode(rng: &mut Rng, max_len: usize) -> String {
    let n = rng.usize(max_len + 1);
    (0..n).map(|_| random_char(rng)).collect()
}

/// One character-level mutation of `s` drawn from `alphabet` (+ odd characters).
pub fn mutate(rng: &mut Rng, s: &str, alphabet: &[char]) -> String {
    let mut cs: Vec<char> = s.chars().collect();
    let pick_char = |rng: &mut Rng| -> char {
        match rng.below(10) {
            0 => *rng.pick(ODD_CHARS),
            1 => random_char(rng),
            _ => *rng.pick(alphabet),
        }
    };
    match rng.below(9) {
        0 => {
            let i = rng.usize(cs.len() + 1);
            let c = pick_char(rng);
            cs.insert(i, c);
        }
        1 if !cs.is_empty() => {
            let i = rng.usize(cs.len());
            cs.remove(i);
        }
        2 if !cs.is_empty() => {
            let i = rng.usize(cs.len());
            let c = cs[i];
            cs.insert(i, c);
        }
        3 if cs.len() >= 2 => {
            let i = rng.usize(cs.len() - 1);
            cs.swap(i, i + 1);
        }
        4 if !cs.is_empty() => {
            let i = rng.usize(cs.len());
            let c = cs[i];
            cs[i] = if c.is_ascii_uppercase() { c.to_ascii_lowercase() } else { c.to_ascii_uppercase() };
        }
        5 if !cs.is_empty() => {
            let i = rng.usize(cs.len());
            cs[i] = pick_char(rng);
        }
        6 => {
            // append / prepend
            let c = pick_char(rng);
            if rng.chance(1, 2) {
                cs.push(c)
            } else {
                cs.insert(0, c)
            }
        }
        7 if !cs.is_empty() => {
            // truncate
            let i = rng.usize(cs.len());
            cs.truncate(i);
        }
        _ => {
            // long digit run / repeated separator
            let i = rng.usize(cs.len() + 1);
            let c = *rng.pick(&['9', '0', ' ', '/', '1']);
            let n = 1 + rng.usize(40);
            for _ in 0..n {
                cs.insert(i, c);
            }
        }
    }
    cs.into_iter().collect()
}

pub fn mutate_n(rng: &mut Rng, s: &str, alphabet: &[char], n: usize) -> String {
    let mut t = s.to_string();
    for _ in 0..n {
        t = mutate(rng, &t, alphabet);
    }
    t
}

/// All strings over `alphabet` with length <= `max_len`, visited through `f`.
pub fn for_all_strings(alphabet: &[char], max_len: usize, f: &mut dyn FnMut(&str)) {
    fn rec(alphabet: &[char], cur: &mut String, left: usize, f: &mut dyn FnMut(&str)) {
        f(cur);
        if left == 0 {
            return;
        }
        for &c in alphabet {
            cur.push(c);
            rec(alphabet, cur, left - 1, f);
            cur.pop();
        }
    }
    let mut cur = String::new();
    rec(alphabet, &mut cur, max_len, f);
}

/// Non-ASCII relatives of ASCII characters: characters whose Unicode case mappings produce the
/// ASCII character (Kelvin sign -> k, long s -> S, dotted capital I -> i ...), computed once by
/// scanning every scalar value.
fn case_relatives() -> &'static Vec<Vec<char>> {
    static REL: std::sync::OnceLock<Vec<Vec<char>>> = std::sync::OnceLock::new();
    REL.get_or_init(|| {
        let mut rel: Vec<Vec<char>> = vec![Vec::new(); 128];
        // scanning 1.1 million scalars is far too slow under the Miri interpreter
        let upper = if cfg!(miri) { 0x2200u32 } else { 0x110000 };
        for v in 0x80u32..upper {
            if let Some(x) = char::from_u32(v) {
                for y in x.to_lowercase().chain(x.to_uppercase()) {
                    if y.is_ascii() && !rel[y as usize].contains(&x) {
                        rel[y as usize].push(x);
                    }
                }
            }
        }
        rel
    })
}

/// Look-alikes / aliases of an ASCII character that a careless parser might accept: characters with
/// the same low byte (`c as u8` narrowing), full-width forms, Unicode decimal digits of the same
/// value, case-mapping relatives, the other ASCII case.
pub fn confusables(c: char) -> Vec<char> {
    let mut v: Vec<char> = Vec::new();
    if !c.is_ascii() {
        return v;
    }
    let b = c as u32;
    for k in [0x100u32, 0x200, 0x300, 0x400, 0x500, 0x600, 0x700, 0x1000, 0x2100, 0xA000, 0xFF00, 0x10000, 0x1F600, 0x100000] {
        if let Some(x) = char::from_u32(k + b) {
            v.push(x);
        }
    }
    if (0x21..=0x7e).contains(&b) {
        if let Some(x) = char::from_u32(0xFF00 + b - 0x20) {
            v.push(x); // full-width form
        }
    }
    if c.is_ascii_digit() {
        let d = b - '0' as u32;
        for base in [0x0660u32, 0x06F0, 0x0966, 0xFF10, 0x1D7CE, 0x1D7D8, 0x2080, 0x2070] {
            if let Some(x) = char::from_u32(base + d) {
                v.push(x);
            }
        }
    }
    v.extend(case_relatives()[b as usize].iter().copied());
    if c.is_ascii_alphabetic() {
        // relatives of the other case too (the Kelvin sign lowercases to 'k' but is itself upper case)
        let o = if c.is_ascii_uppercase() { c.to_ascii_lowercase() } else { c.to_ascii_uppercase() };
        v.extend(case_relatives()[o as usize].iter().copied());
        v.push(if c.is_ascii_uppercase() { c.to_ascii_lowercase() } else { c.to_ascii_uppercase() });
    }
    v
}

/// Replace one ASCII character of `s` by one of its confusables.
pub fn alias_substitution(rng: &mut Rng, s: &str) -> String {
    let mut cs: Vec<char> = s.chars().collect();
    let idxs: Vec<usize> = (0..cs.len()).filter(|&i| cs[i].is_ascii() && cs[i] != ' ').collect();
    if idxs.is_empty() {
        return s.to_string();
    }
    let i = *rng.pick(&idxs);
    let c = confusables(cs[i]);
    if !c.is_empty() {
        cs[i] = *rng.pick(&c);
    }
    cs.into_iter().collect()
}

/// Every single-character confusable substitution of `s`.
pub fn for_all_alias_substitutions(s: &str, f: &mut dyn FnMut(&str)) {
    let cs: Vec<char> = s.chars().collect();
    for i in 0..cs.len() {
        for x in confusables(cs[i]) {
            let mut t = cs.clone();
            t[i] = x;
            let u: String = t.into_iter().collect();
            f(&u);
        }
    }
}
