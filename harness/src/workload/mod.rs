//! Workload generators: positions (as model `RPos` values pushed through the library's entry
//! routes), targeted families, corpora, walks. Text workloads live in `text.rs`.

pub mod gen;
pub mod text;

use crate::refmodel::fen::write_fen;
use crate::refmodel::*;
use crate::runtime::{guard, Cx};
use cozy_chess::{Board, BoardBuilder, BoardBuilderError, CastleRights, Color, FenParseError, Piece};

/// Fill a library builder from a model position (pure data copy).
pub fn to_builder(p: &RPos) -> BoardBuilder {
    let mut b = BoardBuilder::empty();
    for s in 0..64 {
        b.board[s] = p.sq[s].map(|(c, pc)| (pc, c));
    }
    b.side_to_move = p.stm;
    for &c in &[Color::White, Color::Black] {
        b.castle_rights[c as usize] =
            CastleRights { short: p.rights[ci(c)][0].map(lib_file), long: p.rights[ci(c)][1].map(lib_file) };
    }
    b.en_passant = p.ep.map(|f| lib_sq(idx(f as i32, rel_rank(p.stm, 6))));
    b.halfmove_clock = p.half.min(255) as u8;
    b.fullmove_number = p.full.min(65535) as u16;
    b
}

pub fn build(p: &RPos) -> Result<Result<Board, BoardBuilderError>, String> {
    let b = to_builder(p);
    guard(|| b.build())
}

pub fn parse_shredder(p: &RPos) -> Result<Result<Board, FenParseError>, String> {
    let t = write_fen(p, true);
    guard(|| Board::from_fen(&t, true))
}

#[derive(Clone, Debug, Default)]
pub struct Hist {
    pub route: &'static str,
    pub root: String,
    pub moves: Vec<String>,
}

impl Hist {
    pub fn replay_args(&self) -> Vec<String> {
        let mut v = vec![self.route.to_string(), crate::hex(&self.root)];
        v.extend(self.moves.iter().cloned());
        v
    }
    pub fn describe(&self) -> String {
        format!("root[{}]='{}' moves=[{}]", self.route, self.root, self.moves.join(" "))
    }
}

#[derive(Clone, Copy, PartialEq, Eq, Debug)]
pub enum EvKind {
    Root,
    Play,
    Null,
}

pub struct Ev<'a> {
    pub kind: EvKind,
    pub prev: Option<(&'a Board, &'a RPos)>,
    pub mv: Option<RMove>,
    pub hist: &'a Hist,
    pub source: &'static str,
}

pub trait BoardMonitor {
    /// Called for every board produced (roots and every ply of every walk).
    fn on_board(&mut self, cx: &mut Cx, b: &Board, m: &RPos, ev: &Ev);
}

/// Relative weights of the root sources.
#[derive(Clone, Copy)]
pub struct Mix {
    pub start960: u32,
    pub dfrc: u32,
    pub corpus: u32,
    pub scatter: u32,
    pub sound: u32,
    pub pins: u32,
    pub ep: u32,
    pub castle: u32,
    pub promo: u32,
    pub mating: u32,
    pub maxbatch: u32,
    pub sanamb: u32,
    pub fewmovers: u32,
    pub rookcap: u32,
    pub epdisc: u32,
    pub dense: u32,
    pub special: u32,
    pub maxrec: u32,
    pub special2: u32,
    pub heavy: u32,
    /// probability (per 100) that a root is followed by a walk, and its maximal length
    pub walk_pct: u32,
    pub walk_len: u32,
    /// probability (per 100) of interleaving a null move at a ply where it is legal
    pub null_pct: u32,
    /// probability (per 100) that a walk root gets its clocks forced to an edge
    pub clock_edge_pct: u32,
}

impl Mix {
    pub const GENERAL: Mix = Mix {
        start960: 6, dfrc: 6, corpus: 10, scatter: 14, sound: 12, pins: 12, ep: 12, castle: 14, promo: 6, mating: 5,
        maxbatch: 1, sanamb: 2, fewmovers: 3, rookcap: 4, epdisc: 4, dense: 2, special: 3, maxrec: 1, special2: 3, heavy: 2, walk_pct: 35, walk_len: 60, null_pct: 8, clock_edge_pct: 15,
    };
    pub const HISTORIES: Mix = Mix {
        start960: 10, dfrc: 10, corpus: 10, scatter: 6, sound: 10, pins: 14, ep: 12, castle: 14, promo: 6, mating: 6,
        maxbatch: 1, sanamb: 1, fewmovers: 3, rookcap: 4, epdisc: 4, dense: 2, special: 3, maxrec: 1, special2: 3, heavy: 2, walk_pct: 90, walk_len: 120, null_pct: 15, clock_edge_pct: 20,
    };
    pub const ROOTS_ONLY: Mix = Mix {
        start960: 4, dfrc: 4, corpus: 12, scatter: 16, sound: 14, pins: 12, ep: 12, castle: 14, promo: 6, mating: 4,
        maxbatch: 1, sanamb: 1, fewmovers: 3, rookcap: 4, epdisc: 4, dense: 2, special: 3, maxrec: 1, special2: 3, heavy: 2, walk_pct: 10, walk_len: 20, null_pct: 5, clock_edge_pct: 10,
    };
}

pub struct Corpus {
    pub valid: Vec<String>,
    pub invalid: Vec<String>,
    pub starts: Vec<String>,
}

pub fn repo_root() -> String {
    std::env::var("VERIF_REPO").unwrap_or_else(|_| "/repo".to_string())
}

impl Corpus {
    pub fn load() -> Corpus {
        let dir = format!("{}/cozy-chess/src/board/test_data", repo_root());
        let rd = |n: &str| -> Vec<String> {
            std::fs::read_to_string(format!("{}/{}", dir, n))
                .map(|s| s.lines().map(|l| l.to_string()).filter(|l| !l.is_empty()).collect())
                .unwrap_or_default()
        };
        Corpus { valid: rd("valid.sfens"), invalid: rd("invalid.sfens"), starts: rd("chess960_start_positions.sfens") }
    }
}

/// The published perft roots used by the repository's own tests (plain or Shredder FEN).
pub const PERFT_ROOTS: &[&str] = &[
    "rnbqkbnr/pppppppp/8/8/8/8/PPPPPPPP/RNBQKBNR w KQkq - 0 1",
    "r3k2r/p1ppqpb1/bn2pnp1/3PN3/1p2P3/2N2Q1p/PPPBBPPP/R3K2R w KQkq - 0 1",
    "8/2p5/3p4/KP5r/1R3p1k/8/4P1P1/8 w - - 0 1",
    "r3k2r/Pppp1ppp/1b3nbN/nP6/BBP1P3/q4N2/Pp1P2PP/R2Q1RK1 w kq - 0 1",
    "rnbq1k1r/pp1Pbppp/2p5/8/2B5/8/PPP1NnPP/RNBQK2R w KQ - 1 8",
    "r4rk1/1pp1qppp/p1np1n2/2b1p1B1/2B1P1b1/P1NP1N2/1PP1QPPP/R4RK1 w - - 0 10",
];

pub struct Driver<'c> {
    pub corpus: &'c Corpus,
    pub mix: Mix,
}

fn pick_weighted(cx: &mut Cx, ws: &[u32]) -> usize {
    let total: u32 = ws.iter().sum();
    let mut x = cx.rng.below(total as u64) as u32;
    for (i, &w) in ws.iter().enumerate() {
        if x < w {
            return i;
        }
        x -= w;
    }
    ws.len() - 1
}

impl<'c> Driver<'c> {
    /// Produce one root: (board, route name, source name). `None` if the library rejected the
    /// candidate (which is normal for scatter / lattice candidates).
    pub fn root(&self, cx: &mut Cx) -> Option<(Board, &'static str, &'static str, Option<RMove>)> {
        let m = &self.mix;
        let ws = [m.start960, m.dfrc, m.corpus, m.scatter, m.sound, m.pins, m.ep, m.castle, m.promo, m.mating, m.maxbatch, m.sanamb, m.fewmovers, m.rookcap, m.epdisc, m.dense, m.special, m.maxrec, m.special2, m.heavy];
        let mut k = pick_weighted(cx, &ws);
        if cx.miri {
            // under the Miri interpreter only the cheap sources (no rejection sampling)
            k = *cx.rng.pick(&[0usize, 1, 2, 5, 6, 7]);
        }
        match k {
            0 => {
                let n = cx.rng.below(960) as u32;
                guard(|| Board::chess960_startpos(n)).ok().map(|b| (b, "start960", "start960", None))
            }
            1 => {
                let mut w = cx.rng.below(960) as u32;
                let mut bn = cx.rng.below(960) as u32;
                if cx.rng.chance(1, 20) {
                    w = *cx.rng.pick(&[0, 959, 518]);
                }
                if cx.rng.chance(1, 20) {
                    bn = *cx.rng.pick(&[0, 959, 518]);
                }
                guard(|| Board::double_chess960_startpos(w, bn)).ok().map(|b| (b, "dfrc", "dfrc", None))
            }
            2 => {
                if self.corpus.valid.is_empty() || cx.rng.chance(1, 12) {
                    let t = *cx.rng.pick(PERFT_ROOTS);
                    guard(|| t.parse::<Board>()).ok().and_then(|r| r.ok()).map(|b| (b, "fromstr", "perft-root", None))
                } else {
                    let t = cx.rng.pick(&self.corpus.valid).clone();
                    guard(|| Board::from_fen(&t, true)).ok().and_then(|r| r.ok()).map(|b| (b, "fen", "corpus", None))
                }
            }
            14 => {
                // position before a double push that discovers a check; the push is forced next
                for _ in 0..24 {
                    if let Some((p, from, to)) = gen::ep_discovery_case(&mut cx.rng) {
                        let mv = RMove { from: from as u8, to: to as u8, promo: None };
                        if !p.legal_moves().contains(&mv) {
                            continue;
                        }
                        if let Ok(Ok(b)) = build(&p) {
                            return Some((b, "builder", "ep-discovery", Some(mv)));
                        }
                    }
                }
                None
            }
            _ => {
                let (p, src): (RPos, &'static str) = match k {
                    3 => (gen::scatter(&mut cx.rng), "scatter"),
                    4 => (gen::sound_random(&mut cx.rng), "sound-random"),
                    5 => (gen::pin_case(&mut cx.rng), "pin-lattice"),
                    6 => (gen::ep_case(&mut cx.rng), "ep-lattice"),
                    7 => (gen::castle_case(&mut cx.rng), "castle-lattice"),
                    8 => (gen::promo_case(&mut cx.rng), "promo-lattice"),
                    9 => (gen::mating_case(&mut cx.rng), "mating-net"),
                    10 => (gen::max_batch_case(&mut cx.rng), "max-batch"),
                    11 => (gen::san_ambiguity_case(&mut cx.rng), "san-ambiguity"),
                    12 => (gen::few_movers_case(&mut cx.rng), "few-movers"),
                    15 => (gen::dense_fragmented_case(&mut cx.rng), "dense-fragmented"),
                    16 => gen::special_class_case(&mut cx.rng),
                    17 => (gen::max_record_case(&mut cx.rng), "max-record"),
                    18 => gen::special_class_case2(&mut cx.rng),
                    19 => if cx.rng.chance(1, 2) { (gen::heavy_material_case(&mut cx.rng), "heavy-material") } else { (gen::stacked_rays_case(&mut cx.rng), "stacked-rays") },
                    _ => (gen::rook_right_capture_case(&mut cx.rng), "rook-right-capture"),
                };
                // both entry routes are used; which one hands out the board alternates
                if cx.rng.chance(1, 2) {
                    match build(&p) {
                        Ok(Ok(b)) => Some((b, "builder", src, None)),
                        _ => None,
                    }
                } else {
                    match parse_shredder(&p) {
                        Ok(Ok(b)) => Some((b, "fen", src, None)),
                        _ => None,
                    }
                }
            }
        }
    }

    /// Drive `mon` with roots and walks until `budget` boards have been observed.
    pub fn run(&self, cx: &mut Cx, mon: &mut dyn BoardMonitor, budget: u64) {
        let mut seen = 0u64;
        let mut attempts = 0u64;
        while seen < budget && attempts < budget * 50 + 1000 {
            attempts += 1;
            let (mut board, route, source, forced) = match self.root(cx) {
                Some(x) => x,
                None => {
                    cx.count("roots_rejected_by_library");
                    continue;
                }
            };
            cx.count_dyn(format!("root_source:{}", source));
            let do_walk = forced.is_some() || cx.rng.chance(self.mix.walk_pct as u64, 100);
            let mut route = route;
            if do_walk && cx.rng.chance(self.mix.clock_edge_pct as u64, 100) {
                // clocks forced to the edges through the public setters
                let h = cx.rng.range(96, 100) as u8;
                let f = cx.rng.range(65532, 65535) as u16;
                let which = cx.rng.below(3);
                let _ = guard(|| {
                    if which != 1 {
                        board.set_halfmove_clock(h);
                    }
                    if which != 0 {
                        board.set_fullmove_number(f);
                    }
                });
                route = "setters";
                cx.count("roots_with_clock_edges");
            }
            let m = RPos::observe(&board);
            let mut hist = Hist { route, root: write_fen(&m, true), moves: Vec::new() };
            {
                let ev = Ev { kind: EvKind::Root, prev: None, mv: None, hist: &hist, source };
                mon.on_board(cx, &board, &m, &ev);
            }
            seen += 1;
            if !do_walk {
                continue;
            }
            cx.count("walks");
            let len = 1 + cx.rng.below(self.mix.walk_len as u64);
            let (mut board, mut m) = (board, m);
            if let Some(mv) = forced {
                let mut nb = board.clone();
                if guard(|| nb.play_unchecked(mv.lib())).is_ok() {
                    let nm = RPos::observe(&nb);
                    hist.moves.push(mv.text());
                    {
                        let ev = Ev { kind: EvKind::Play, prev: Some((&board, &m)), mv: Some(mv), hist: &hist, source };
                        mon.on_board(cx, &nb, &nm, &ev);
                    }
                    cx.count("forced-discovering-double-pushes");
                    seen += 1;
                    if nm.structurally_sound().is_err() {
                        continue;
                    }
                    board = nb;
                    m = nm;
                }
            }
            seen += walk(cx, mon, board, m, &mut hist, len, self.mix.null_pct, source, budget.saturating_sub(seen));
        }
        cx.count_n("boards_observed", seen);
    }
}

/// Weighted choice among the *model's* legal moves, favouring the special cases.
pub fn choose_move(cx: &mut Cx, m: &RPos, legal: &[RMove]) -> RMove {
    let mut ws = Vec::with_capacity(legal.len());
    for &mv in legal {
        let mut w = 2u32;
        let piece = m.sq[mv.from as usize].map(|x| x.1).unwrap_or(Piece::Pawn);
        if m.is_castle(mv) {
            w += 30;
        } else if m.is_ep_capture(mv) {
            w += 40;
        } else if m.is_capture(mv) {
            w += 6;
            if matches!(m.sq[mv.to as usize], Some((_, Piece::Rook))) {
                w += 10;
            }
        }
        if mv.promo.is_some() {
            w += 8;
        }
        if piece == Piece::Pawn && (mv.from / 8).abs_diff(mv.to / 8) == 2 {
            w += 6;
        }
        if piece == Piece::King || piece == Piece::Rook {
            w += 2;
        }
        ws.push(w);
    }
    // one time in four look for a checking move
    if cx.rng.chance(1, 4) {
        let mut order: Vec<usize> = (0..legal.len()).collect();
        cx.rng.shuffle(&mut order);
        for &i in order.iter().take(12) {
            let after = m.make(legal[i]);
            if after.in_check(after.stm) {
                return legal[i];
            }
        }
    }
    legal[pick_weighted(cx, &ws)]
}

/// Random legal walk with interleaved null moves; returns the number of boards observed.
#[allow(clippy::too_many_arguments)]
pub fn walk(
    cx: &mut Cx,
    mon: &mut dyn BoardMonitor,
    mut board: Board,
    mut m: RPos,
    hist: &mut Hist,
    len: u64,
    null_pct: u32,
    source: &'static str,
    max_boards: u64,
) -> u64 {
    let mut seen = 0;
    for _ in 0..len {
        if seen >= max_boards {
            break;
        }
        // null move?
        if cx.rng.chance(null_pct as u64, 100) {
            match guard(|| board.null_move()) {
                Ok(Some(nb)) => {
                    let nm = RPos::observe(&nb);
                    hist.moves.push("null".to_string());
                    {
                        let ev = Ev { kind: EvKind::Null, prev: Some((&board, &m)), mv: None, hist, source };
                        mon.on_board(cx, &nb, &nm, &ev);
                    }
                    cx.count("null_moves_played");
                    board = nb;
                    m = nm;
                    seen += 1;
                    continue;
                }
                _ => {}
            }
        }
        let legal = m.legal_moves();
        if legal.is_empty() {
            cx.count("walks_ended_no_moves");
            break;
        }
        let mv = choose_move(cx, &m, &legal);
        let mut nb = board.clone();
        // the walk itself advances with play_unchecked, as a user of the fast path would
        if guard(|| nb.play_unchecked(mv.lib())).is_err() {
            // the per-property monitors report this; the walk cannot continue
            cx.count("walks_ended_by_panic_in_play");
            break;
        }
        let nm = RPos::observe(&nb);
        hist.moves.push(mv.text());
        {
            let ev = Ev { kind: EvKind::Play, prev: Some((&board, &m)), mv: Some(mv), hist, source };
            mon.on_board(cx, &nb, &nm, &ev);
        }
        cx.count("plies_played");
        seen += 1;
        // if the library's successor is not a sound position the walk stops (the monitors have
        // already had their say); continuing from the model's successor would hide the error
        if nm.structurally_sound().is_err() {
            cx.count("walks_ended_unsound_successor");
            break;
        }
        board = nb;
        m = nm;
    }
    seen
}

/// Rebuild a root for replay.
pub fn root_from(route: &str, fen: &str) -> Option<Board> {
    let p = crate::refmodel::fen::decode_any(fen);
    match route {
        "fen" | "corpus" => Board::from_fen(fen, true).ok().or_else(|| p.and_then(|p| to_builder(&p).build().ok())),
        _ => p.as_ref().and_then(|p| to_builder(p).build().ok()).or_else(|| Board::from_fen(fen, true).ok()),
    }
}

/// Exhaustive shallow tree: every legal move sequence (and, optionally, null moves) up to `depth`
/// plies from `board`, each node handed to the monitor with its full history.
#[allow(clippy::too_many_arguments)]
pub fn tree(cx: &mut Cx, mon: &mut dyn BoardMonitor, board: &Board, m: &RPos, hist: &mut Hist, depth: u32, with_null: bool, source: &'static str) {
    if depth == 0 {
        return;
    }
    let legal = m.legal_moves();
    for mv in legal {
        let mut nb = board.clone();
        if guard(|| nb.play_unchecked(mv.lib())).is_err() {
            cx.count("tree:play-panicked");
            continue;
        }
        let nm = RPos::observe(&nb);
        hist.moves.push(mv.text());
        {
            let ev = Ev { kind: EvKind::Play, prev: Some((board, m)), mv: Some(mv), hist, source };
            mon.on_board(cx, &nb, &nm, &ev);
        }
        cx.count("tree:nodes");
        if nm.structurally_sound().is_ok() {
            tree(cx, mon, &nb, &nm, hist, depth - 1, with_null, source);
        }
        hist.moves.pop();
    }
    if with_null {
        if let Ok(Some(nb)) = guard(|| board.null_move()) {
            let nm = RPos::observe(&nb);
            hist.moves.push("null".to_string());
            {
                let ev = Ev { kind: EvKind::Null, prev: Some((board, m)), mv: None, hist, source };
                mon.on_board(cx, &nb, &nm, &ev);
            }
            cx.count("tree:nodes");
            cx.count("tree:null-nodes");
            if nm.structurally_sound().is_ok() {
                tree(cx, mon, &nb, &nm, hist, depth - 1, false, source);
            }
            hist.moves.pop();
        }
    }
}

/// Trees from the Chess960 starts owned by this shard (and from the perft roots on shard 0).
pub fn start_trees(cx: &mut Cx, mon: &mut dyn BoardMonitor, depth_all: u32, depth_some: u32, some_per_shard: usize) {
    let mine = cx.mine(960);
    for (i, n) in mine.iter().enumerate() {
        let b = match guard(|| Board::chess960_startpos(*n as u32)) {
            Ok(b) => b,
            Err(_) => continue,
        };
        let m = RPos::observe(&b);
        let mut hist = Hist { route: "start960", root: write_fen(&m, true), moves: Vec::new() };
        {
            let ev = Ev { kind: EvKind::Root, prev: None, mv: None, hist: &hist, source: "start960-tree" };
            mon.on_board(cx, &b, &m, &ev);
        }
        let d = if i < some_per_shard { depth_some } else { depth_all };
        tree(cx, mon, &b, &m, &mut hist, d, d <= 2, "start960-tree");
        cx.count("tree:roots");
    }
    if cx.shard < PERFT_ROOTS.len() {
        let t = PERFT_ROOTS[cx.shard];
        if let Ok(Ok(b)) = guard(|| t.parse::<Board>()) {
            let m = RPos::observe(&b);
            let mut hist = Hist { route: "fromstr", root: write_fen(&m, true), moves: Vec::new() };
            let ev_src = "perft-root-tree";
            {
                let ev = Ev { kind: EvKind::Root, prev: None, mv: None, hist: &hist, source: ev_src };
                mon.on_board(cx, &b, &m, &ev);
            }
            tree(cx, mon, &b, &m, &mut hist, depth_all.max(2), true, ev_src);
            cx.count("tree:roots");
        }
    }
}
