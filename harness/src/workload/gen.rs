//! Position generators (model positions; the library decides which it accepts).

use crate::refmodel::*;
use crate::rng::Rng;
use cozy_chess::{Color, Piece};

const NONKING: [Piece; 5] = [Piece::Pawn, Piece::Knight, Piece::Bishop, Piece::Rook, Piece::Queen];
const SLIDERS: [Piece; 3] = [Piece::Bishop, Piece::Rook, Piece::Queen];

fn rc(rng: &mut Rng) -> Color {
    if rng.chance(1, 2) {
        Color::White
    } else {
        Color::Black
    }
}

fn empty_sq(rng: &mut Rng, p: &RPos) -> usize {
    loop {
        let s = rng.usize(64);
        if p.sq[s].is_none() {
            return s;
        }
    }
}

fn adjacent(a: usize, b: usize) -> bool {
    let ((af, ar), (bf, br)) = (fr(a), fr(b));
    (af - bf).abs() <= 1 && (ar - br).abs() <= 1
}

/// Place both kings; adjacent with probability `adj_pct`%.
fn place_kings(rng: &mut Rng, p: &mut RPos, adj_pct: u64) {
    let wk = rng.usize(64);
    p.sq[wk] = Some((Color::White, Piece::King));
    loop {
        let bk = rng.usize(64);
        if bk == wk {
            continue;
        }
        let adj = adjacent(wk, bk);
        if adj && !rng.chance(adj_pct, 100) {
            continue;
        }
        p.sq[bk] = Some((Color::Black, Piece::King));
        break;
    }
}

fn random_clocks(rng: &mut Rng, p: &mut RPos, wild: bool) {
    p.half = match rng.below(10) {
        0 => 0,
        1 => 99,
        2 => 100,
        3 if wild => 101 + rng.below(155) as u32,
        _ => rng.below(100) as u32,
    };
    p.full = match rng.below(10) {
        0 => 1,
        1 => 65535,
        2 => 65534,
        3 if wild => 0,
        _ => 1 + rng.below(300) as u32,
    };
}

/// Rights that are actually backed by king and rook (each kept with probability `keep_pct`%).
fn backed_rights(rng: &mut Rng, p: &mut RPos, keep_pct: u64) {
    for &c in &[Color::White, Color::Black] {
        let br = rel_rank(c, 1);
        if let Some(k) = p.king_sq(c) {
            let (kf, kr) = fr(k);
            if kr != br {
                continue;
            }
            // candidate rooks on each side
            let mut left: Vec<u8> = Vec::new();
            let mut right: Vec<u8> = Vec::new();
            for f in 0..8 {
                if p.sq[idx(f, br)] == Some((c, Piece::Rook)) {
                    if f < kf {
                        left.push(f as u8)
                    } else if f > kf {
                        right.push(f as u8)
                    }
                }
            }
            if !right.is_empty() && rng.chance(keep_pct, 100) {
                p.rights[ci(c)][0] = Some(*rng.pick(&right));
            }
            if !left.is_empty() && rng.chance(keep_pct, 100) {
                p.rights[ci(c)][1] = Some(*rng.pick(&left));
            }
        }
    }
}

/// Try to give the position a backed en-passant file (the side not to move has just double-pushed).
fn backed_ep(rng: &mut Rng, p: &mut RPos, force_capturer_pct: u64) -> bool {
    let them = other(p.stm);
    let f = rng.range(0, 7) as i32;
    let pawn = idx(f, rel_rank(them, 4));
    let passed = idx(f, rel_rank(them, 3));
    let origin = idx(f, rel_rank(them, 2));
    for s in [pawn, passed, origin] {
        if matches!(p.sq[s], Some((_, Piece::King))) {
            return false;
        }
    }
    p.sq[pawn] = Some((them, Piece::Pawn));
    p.sq[passed] = None;
    p.sq[origin] = None;
    p.ep = Some(f as u8);
    if rng.chance(force_capturer_pct, 100) {
        for df in [-1, 1] {
            if on(f + df, rel_rank(them, 4)) && rng.chance(2, 3) {
                let s = idx(f + df, rel_rank(them, 4));
                if !matches!(p.sq[s], Some((_, Piece::King))) {
                    p.sq[s] = Some((p.stm, Piece::Pawn));
                }
            }
        }
    }
    true
}

/// W-scatter: arbitrary, frequently unsound.
pub fn scatter(rng: &mut Rng) -> RPos {
    let mut p = RPos::empty();
    p.stm = rc(rng);
    place_kings(rng, &mut p, 4);
    let n = match rng.below(4) {
        0 => rng.below(4),
        1 => rng.below(10),
        2 => rng.below(20),
        _ => rng.below(31),
    } as usize;
    for _ in 0..n {
        let s = empty_sq(rng, &mut p);
        let pc = if rng.chance(1, 60) { Piece::King } else { *rng.pick(&NONKING) };
        let (_, r) = fr(s);
        if pc == Piece::Pawn && (r == 0 || r == 7) && !rng.chance(1, 25) {
            continue;
        }
        p.sq[s] = Some((rc(rng), pc));
    }
    // rights: mostly backed, sometimes arbitrary
    match rng.below(10) {
        0..=4 => backed_rights(rng, &mut p, 70),
        5 | 6 => {
            for c in 0..2 {
                for w in 0..2 {
                    if rng.chance(1, 4) {
                        p.rights[c][w] = Some(rng.below(8) as u8);
                    }
                }
            }
        }
        _ => {}
    }
    match rng.below(10) {
        0..=2 => {
            backed_ep(rng, &mut p, 60);
        }
        3 => p.ep = Some(rng.below(8) as u8),
        _ => {}
    }
    random_clocks(rng, &mut p, true);
    p
}

/// Random position that the *model* judges structurally sound (rejection sampling).
pub fn sound_random(rng: &mut Rng) -> RPos {
    loop {
        let mut p = RPos::empty();
        p.stm = rc(rng);
        place_kings(rng, &mut p, 0);
        // kings on their back ranks fairly often so that rights exist
        if rng.chance(1, 2) {
            let wk = p.king_sq(Color::White).unwrap();
            let bk = p.king_sq(Color::Black).unwrap();
            p.sq[wk] = None;
            p.sq[bk] = None;
            let wf = rng.range(0, 7) as i32;
            let bf = rng.range(0, 7) as i32;
            p.sq[idx(wf, 0)] = Some((Color::White, Piece::King));
            p.sq[idx(bf, 7)] = Some((Color::Black, Piece::King));
        }
        let n = match rng.below(3) {
            0 => rng.below(5),
            1 => rng.below(12),
            _ => rng.below(29),
        } as usize;
        let mut counts = [[0usize; 2]; 2]; // [color][0 all,1 pawns]
        for _ in 0..n {
            let s = empty_sq(rng, &mut p);
            let c = rc(rng);
            let mut pc = *rng.pick(&NONKING);
            let (_, r) = fr(s);
            if pc == Piece::Pawn && (r == 0 || r == 7 || counts[ci(c)][1] >= 8) {
                pc = Piece::Rook;
            }
            if (r == 0 || r == 7) && rng.chance(1, 2) {
                pc = Piece::Rook;
            }
            if counts[ci(c)][0] >= 15 {
                continue;
            }
            counts[ci(c)][0] += 1;
            if pc == Piece::Pawn {
                counts[ci(c)][1] += 1;
            }
            p.sq[s] = Some((c, pc));
        }
        backed_rights(rng, &mut p, 75);
        if rng.chance(1, 3) {
            backed_ep(rng, &mut p, 70);
            // pawn counts may have changed
        }
        random_clocks(rng, &mut p, false);
        if p.structurally_sound().is_ok() {
            return p;
        }
    }
}

fn far_king(rng: &mut Rng, p: &mut RPos, c: Color, avoid: usize) {
    loop {
        let s = rng.usize(64);
        if p.sq[s].is_none() && !adjacent(s, avoid) {
            p.sq[s] = Some((c, Piece::King));
            return;
        }
    }
}

/// Pin / check lattice: mover's king, 1-3 enemy sliders / knights / pawns on aligned and
/// near-aligned squares, 0-2 interposed pieces of either colour per line.
pub fn pin_case(rng: &mut Rng) -> RPos {
    let mut p = RPos::empty();
    let us = rc(rng);
    let them = other(us);
    p.stm = us;
    let k = rng.usize(64);
    p.sq[k] = Some((us, Piece::King));
    let (kf, kr) = fr(k);
    let lines = 1 + rng.below(3);
    for _ in 0..lines {
        let &(df, dr) = rng.pick(&KING_D);
        // squares on that ray
        let mut ray = Vec::new();
        let (mut f, mut r) = (kf + df, kr + dr);
        while on(f, r) {
            ray.push(idx(f, r));
            f += df;
            r += dr;
        }
        if ray.len() < 2 {
            continue;
        }
        let at = 1 + rng.usize(ray.len() - 1);
        let diag = df != 0 && dr != 0;
        let slider = match rng.below(6) {
            0 => Piece::Queen,
            1 | 2 => {
                if diag {
                    Piece::Bishop
                } else {
                    Piece::Rook
                }
            }
            3 => {
                if diag {
                    Piece::Rook
                } else {
                    Piece::Bishop
                } // wrong kind for the line (near miss)
            }
            _ => *rng.pick(&SLIDERS),
        };
        if p.sq[ray[at]].is_none() {
            p.sq[ray[at]] = Some((them, slider));
        }
        // interposers
        let n_between = rng.below(3);
        for _ in 0..n_between {
            let s = ray[rng.usize(at)];
            if p.sq[s].is_none() {
                let c = if rng.chance(2, 3) { us } else { them };
                let mut pc = *rng.pick(&NONKING);
                let (_, rr) = fr(s);
                if pc == Piece::Pawn && (rr == 0 || rr == 7) {
                    pc = Piece::Knight;
                }
                p.sq[s] = Some((c, pc));
            }
        }
        // sometimes a second slider behind the first
        if rng.chance(1, 4) && at + 1 < ray.len() {
            let s = ray[at + 1 + rng.usize(ray.len() - at - 1)];
            if p.sq[s].is_none() {
                p.sq[s] = Some((them, *rng.pick(&SLIDERS)));
            }
        }
    }
    // knights / pawns near the king
    if rng.chance(1, 3) {
        let &(df, dr) = rng.pick(&KNIGHT_D);
        if on(kf + df, kr + dr) && p.sq[idx(kf + df, kr + dr)].is_none() {
            p.sq[idx(kf + df, kr + dr)] = Some((them, Piece::Knight));
        }
    }
    if rng.chance(1, 4) {
        let df = if rng.chance(1, 2) { 1 } else { -1 };
        let r = kr + fwd(us);
        if on(kf + df, r) && r != 0 && r != 7 && p.sq[idx(kf + df, r)].is_none() {
            p.sq[idx(kf + df, r)] = Some((them, Piece::Pawn));
        }
    }
    far_king(rng, &mut p, them, k);
    // a few more pieces
    for _ in 0..rng.below(5) {
        let s = empty_sq(rng, &mut p);
        let (_, r) = fr(s);
        let mut pc = *rng.pick(&NONKING);
        if pc == Piece::Pawn && (r == 0 || r == 7) {
            pc = Piece::Bishop;
        }
        p.sq[s] = Some((rc(rng), pc));
    }
    if rng.chance(1, 3) {
        backed_rights(rng, &mut p, 80);
    }
    random_clocks(rng, &mut p, false);
    p
}

/// EP lattice: a double-pushed pawn with 0/1/2 adjacent capturers that are free, pinned (file,
/// diagonal, rank x-ray) or replaced by another piece kind; king possibly in check by the pushed
/// pawn or by a slider discovered through the pawn's origin square.
pub fn ep_case(rng: &mut Rng) -> RPos {
    let mut p = RPos::empty();
    let us = rc(rng);
    let them = other(us);
    p.stm = us;
    let f = rng.range(0, 7) as i32;
    let r4 = rel_rank(them, 4); // rank of the pushed pawn and of the capturers
    let pawn = idx(f, r4);
    p.sq[pawn] = Some((them, Piece::Pawn));
    p.ep = Some(f as u8);
    // capturers
    for df in [-1, 1] {
        if !on(f + df, r4) {
            continue;
        }
        let s = idx(f + df, r4);
        match rng.below(10) {
            0..=5 => p.sq[s] = Some((us, Piece::Pawn)),
            6 => p.sq[s] = Some((us, *rng.pick(&[Piece::Bishop, Piece::Queen, Piece::Knight, Piece::Rook]))),
            7 => p.sq[s] = Some((them, Piece::Pawn)),
            _ => {}
        }
    }
    // our king: on the same rank (x-ray case), on a diagonal / file of a capturer, attacked by the
    // pawn, or anywhere
    let reserved = [idx(f, rel_rank(them, 3)), idx(f, rel_rank(them, 2))];
    let mut tries = 0;
    let k = loop {
        tries += 1;
        let s = match rng.below(6) {
            0 | 1 => idx(rng.range(0, 7) as i32, r4),
            2 => {
                // square attacked by the pushed pawn
                let df = if rng.chance(1, 2) { 1 } else { -1 };
                let r = r4 + fwd(them);
                if on(f + df, r) {
                    idx(f + df, r)
                } else {
                    rng.usize(64)
                }
            }
            3 => {
                // on a line through the pawn's origin square
                let &(df, dr) = rng.pick(&KING_D);
                let (of, or) = fr(reserved[1]);
                let n = rng.range(1, 6) as i32;
                if on(of + df * n, or + dr * n) {
                    idx(of + df * n, or + dr * n)
                } else {
                    rng.usize(64)
                }
            }
            _ => rng.usize(64),
        };
        if p.sq[s].is_none() && !reserved.contains(&s) {
            break s;
        }
        if tries > 200 {
            break empty_sq(rng, &mut p);
        }
    };
    p.sq[k] = Some((us, Piece::King));
    let (kf, kr) = fr(k);
    // a capturer pinned exactly along its capture diagonal: king, EP square, capturer and an enemy
    // bishop/queen on one diagonal (either order) -- the capture stays on the pin line and is legal
    if rng.chance(1, 5) {
        let target_r = rel_rank(them, 3);
        for dfc in [-1, 1] {
            let cf = f + dfc;
            if !on(cf, r4) || p.sq[idx(cf, r4)] != Some((us, Piece::Pawn)) {
                continue;
            }
            // direction from capturer to the EP square
            let (ddf, ddr) = (f - cf, target_r - r4);
            let (n1, n2) = (rng.range(1, 5) as i32, rng.range(1, 5) as i32);
            let beyond = (f + ddf * n1, target_r + ddr * n1);
            let behind = (cf - ddf * n2, r4 - ddr * n2);
            if on(beyond.0, beyond.1) && on(behind.0, behind.1) {
                let (a, b) = (idx(beyond.0, beyond.1), idx(behind.0, behind.1));
                if a != k && b != k && !reserved.contains(&a) && !reserved.contains(&b) && p.sq[a].is_none() && p.sq[b].is_none() {
                    // move our king onto one end, an enemy slider onto the other
                    p.sq[k] = None;
                    let (ksq, ssq) = if rng.chance(1, 2) { (a, b) } else { (b, a) };
                    p.sq[ksq] = Some((us, Piece::King));
                    p.sq[ssq] = Some((them, if rng.chance(1, 3) { Piece::Queen } else { Piece::Bishop }));
                    far_king(rng, &mut p, them, ksq);
                    random_clocks(rng, &mut p, false);
                    return p;
                }
            }
        }
    }
    // enemy sliders on lines through the king
    for _ in 0..rng.below(4) {
        let &(df, dr) = rng.pick(&KING_D);
        let n = rng.range(2, 7) as i32;
        let (sf, sr) = (kf + df * n, kr + dr * n);
        if on(sf, sr) {
            let s = idx(sf, sr);
            if p.sq[s].is_none() && !reserved.contains(&s) {
                let diag = df != 0 && dr != 0;
                let pc = if rng.chance(1, 3) {
                    Piece::Queen
                } else if diag {
                    Piece::Bishop
                } else {
                    Piece::Rook
                };
                p.sq[s] = Some((them, pc));
            }
        }
    }
    // the enemy king: far away, or lined up so that an en passant capture discovers a check on it
    // (on the capture rank behind both pawns with our rook/queen on the other side; on a line
    // through the captured pawn or through the capturer with our slider behind)
    let mut enemy_king_placed = false;
    if rng.chance(1, 3) {
        let caps: Vec<i32> = [-1, 1].iter().map(|d| f + d).filter(|&x| on(x, r4) && p.sq[idx(x, r4)] == Some((us, Piece::Pawn))).collect();
        if !caps.is_empty() {
            let cf = *rng.pick(&caps);
            // line through the captured pawn (or, one time in three, through the capturer)
            let through = if rng.chance(1, 3) { idx(cf, r4) } else { pawn };
            let (tf, tr) = fr(through);
            let dirs: Vec<(i32, i32)> = KING_D.iter().copied().filter(|&(_, dr)| !(through == pawn && dr == 0 && false)).collect();
            let &(df, dr) = rng.pick(&dirs);
            let (n1, n2) = (rng.range(1, 6) as i32, rng.range(1, 6) as i32);
            let (ks, ss) = ((tf + df * n1, tr + dr * n1), (tf - df * n2, tr - dr * n2));
            if on(ks.0, ks.1) && on(ss.0, ss.1) {
                let (ksq, ssq) = (idx(ks.0, ks.1), idx(ss.0, ss.1));
                if p.sq[ksq].is_none() && p.sq[ssq].is_none() && !reserved.contains(&ksq) && !reserved.contains(&ssq) && !adjacent(ksq, k) {
                    let diag = df != 0 && dr != 0;
                    p.sq[ksq] = Some((them, Piece::King));
                    p.sq[ssq] = Some((us, if rng.chance(1, 3) { Piece::Queen } else if diag { Piece::Bishop } else { Piece::Rook }));
                    enemy_king_placed = true;
                }
            }
        }
    }
    if !enemy_king_placed {
        far_king(rng, &mut p, them, k);
    }
    for _ in 0..rng.below(4) {
        let s = empty_sq(rng, &mut p);
        if reserved.contains(&s) && !rng.chance(1, 10) {
            continue;
        }
        let (_, r) = fr(s);
        let mut pc = *rng.pick(&NONKING);
        if pc == Piece::Pawn && (r == 0 || r == 7) {
            pc = Piece::Knight;
        }
        p.sq[s] = Some((rc(rng), pc));
    }
    if rng.chance(1, 8) {
        p.ep = None;
    }
    random_clocks(rng, &mut p, false);
    p
}

/// Chess960 castling lattice.
pub fn castle_case(rng: &mut Rng) -> RPos {
    let mut p = RPos::empty();
    let us = rc(rng);
    let them = other(us);
    p.stm = us;
    let br = rel_rank(us, 1);
    // any file, the corners included (a corner king can still hold one right)
    let kf = if rng.chance(1, 6) { *rng.pick(&[0, 7]) } else { rng.range(1, 6) as i32 };
    let k = idx(kf, br);
    p.sq[k] = Some((us, Piece::King));
    // rooks
    if kf < 7 && rng.chance(4, 5) {
        let rf = rng.range(kf as i64 + 1, 7) as i32;
        p.sq[idx(rf, br)] = Some((us, Piece::Rook));
        if rng.chance(9, 10) {
            p.rights[ci(us)][0] = Some(rf as u8);
        }
    }
    if kf > 0 && rng.chance(4, 5) {
        let rf = rng.range(0, kf as i64 - 1) as i32;
        p.sq[idx(rf, br)] = Some((us, Piece::Rook));
        if rng.chance(9, 10) {
            p.rights[ci(us)][1] = Some(rf as u8);
        }
    }
    // a second own rook (or queen) on the ENEMY back rank, on the file of one of our rights or of
    // our king: leaving that square must not touch our rights
    if rng.chance(1, 5) {
        let files: Vec<i32> = (0..2).filter_map(|w| p.rights[ci(us)][w].map(|f| f as i32)).chain(std::iter::once(kf)).collect();
        let f = *rng.pick(&files);
        let far = rel_rank(us, 8);
        if p.sq[idx(f, far)].is_none() {
            p.sq[idx(f, far)] = Some((us, if rng.chance(3, 4) { Piece::Rook } else { Piece::Queen }));
        }
    }
    // extra own rook that carries no right
    if rng.chance(1, 6) {
        let s = idx(rng.range(0, 7) as i32, br);
        if p.sq[s].is_none() {
            p.sq[s] = Some((us, Piece::Rook));
        }
    }
    // own / enemy blockers on the back rank
    for _ in 0..rng.below(3) {
        let s = idx(rng.range(0, 7) as i32, br);
        if p.sq[s].is_none() {
            let c = if rng.chance(2, 3) { us } else { them };
            p.sq[s] = Some((c, *rng.pick(&[Piece::Knight, Piece::Bishop, Piece::Queen, Piece::Rook])));
        }
    }
    // attackers aimed at the back rank
    for _ in 0..rng.below(4) {
        let tf = rng.range(0, 7) as i32;
        let pc = *rng.pick(&[Piece::Rook, Piece::Bishop, Piece::Queen, Piece::Knight, Piece::Pawn, Piece::King]);
        let d = fwd(us);
        let s = match pc {
            Piece::Rook | Piece::Queen if rng.chance(1, 2) => idx(tf, br + d * rng.range(1, 7) as i32),
            Piece::Bishop | Piece::Queen => {
                let n = rng.range(1, 6) as i32;
                let df = if rng.chance(1, 2) { n } else { -n };
                if on(tf + df, br + d * n) {
                    idx(tf + df, br + d * n)
                } else {
                    continue;
                }
            }
            Piece::Knight => {
                let &(df, dr) = rng.pick(&KNIGHT_D);
                if on(tf + df, br + dr) && br + dr != br {
                    idx(tf + df, br + dr)
                } else {
                    continue;
                }
            }
            Piece::Pawn => {
                let df = if rng.chance(1, 2) { 1 } else { -1 };
                if on(tf + df, br + d) {
                    idx(tf + df, br + d)
                } else {
                    continue;
                }
            }
            _ => continue,
        };
        if p.sq[s].is_none() {
            p.sq[s] = Some((them, pc));
        }
    }
    // the enemy king, sometimes near or even on our back rank
    let bk_placed = if rng.chance(1, 6) {
        let on_back = rng.chance(1, 2);
        let s = idx(rng.range(0, 7) as i32, if on_back { br } else { br + fwd(us) * rng.range(1, 2) as i32 });
        if p.sq[s].is_none() && !adjacent(s, k) {
            p.sq[s] = Some((them, Piece::King));
            true
        } else {
            false
        }
    } else {
        false
    };
    if !bk_placed {
        // give the opponent a castling set-up of its own half of the time
        if rng.chance(1, 2) {
            let obr = rel_rank(them, 1);
            let okf = if rng.chance(1, 6) { *rng.pick(&[0, 7]) } else { rng.range(1, 6) as i32 };
            if p.sq[idx(okf, obr)].is_none() {
                p.sq[idx(okf, obr)] = Some((them, Piece::King));
                for (w, lo, hi) in [(0usize, okf + 1, 7), (1usize, 0, okf - 1)] {
                    if lo <= hi && rng.chance(2, 3) {
                        let rf = rng.range(lo as i64, hi as i64) as i32;
                        if p.sq[idx(rf, obr)].is_none() {
                            p.sq[idx(rf, obr)] = Some((them, Piece::Rook));
                            p.rights[ci(them)][w] = Some(rf as u8);
                        }
                    }
                }
            } else {
                far_king(rng, &mut p, them, k);
            }
        } else {
            far_king(rng, &mut p, them, k);
        }
    }
    // enemy slider on the back rank behind a rook
    if rng.chance(1, 5) {
        let s = idx(rng.range(0, 7) as i32, br);
        if p.sq[s].is_none() {
            p.sq[s] = Some((them, *rng.pick(&[Piece::Rook, Piece::Queen])));
        }
    }
    random_clocks(rng, &mut p, false);
    p
}

/// Promotion lattice: pawns on the seventh with capture targets, some of them rooks carrying rights.
pub fn promo_case(rng: &mut Rng) -> RPos {
    let mut p = RPos::empty();
    let us = rc(rng);
    let them = other(us);
    p.stm = us;
    let r7 = rel_rank(us, 7);
    let r8 = rel_rank(us, 8);
    // enemy back rank: king + rooks with rights
    let okf = rng.range(1, 6) as i32;
    p.sq[idx(okf, r8)] = Some((them, Piece::King));
    for (w, lo, hi) in [(0usize, okf + 1, 7), (1usize, 0, okf - 1)] {
        if rng.chance(3, 4) {
            let rf = rng.range(lo as i64, hi as i64) as i32;
            p.sq[idx(rf, r8)] = Some((them, Piece::Rook));
            if rng.chance(4, 5) {
                p.rights[ci(them)][w] = Some(rf as u8);
            }
        }
    }
    for _ in 0..rng.below(3) {
        let s = idx(rng.range(0, 7) as i32, r8);
        if p.sq[s].is_none() {
            p.sq[s] = Some((them, *rng.pick(&[Piece::Knight, Piece::Bishop, Piece::Queen])));
        }
    }
    for _ in 0..1 + rng.below(4) {
        let s = idx(rng.range(0, 7) as i32, r7);
        if p.sq[s].is_none() {
            p.sq[s] = Some((us, Piece::Pawn));
        }
    }
    far_king(rng, &mut p, us, idx(okf, r8));
    for _ in 0..rng.below(5) {
        let s = empty_sq(rng, &mut p);
        let (_, r) = fr(s);
        let mut pc = *rng.pick(&NONKING);
        if pc == Piece::Pawn && (r == 0 || r == 7) {
            pc = Piece::Knight;
        }
        p.sq[s] = Some((rc(rng), pc));
    }
    if rng.chance(1, 2) {
        backed_rights(rng, &mut p, 80);
    }
    random_clocks(rng, &mut p, false);
    p
}

/// Low-material mating nets: K + (Q | R | 2B | Q+R | R+R) vs K near edges / corners.
pub fn mating_case(rng: &mut Rng) -> RPos {
    let mut p = RPos::empty();
    let loser = rc(rng);
    let winner = other(loser);
    p.stm = loser;
    // losing king near an edge
    let edge = |rng: &mut Rng| -> i32 { *rng.pick(&[0, 0, 0, 7, 7, 7, 1, 6]) };
    let (kf, kr) = if rng.chance(1, 2) { (edge(rng), rng.range(0, 7) as i32) } else { (rng.range(0, 7) as i32, edge(rng)) };
    let k = idx(kf, kr);
    p.sq[k] = Some((loser, Piece::King));
    // winning king two squares away (opposition) or anywhere
    let mut placed = false;
    for _ in 0..20 {
        let (df, dr) = (rng.range(-2, 2) as i32, rng.range(-2, 2) as i32);
        if on(kf + df, kr + dr) {
            let s = idx(kf + df, kr + dr);
            if !adjacent(s, k) && p.sq[s].is_none() {
                p.sq[s] = Some((winner, Piece::King));
                placed = true;
                break;
            }
        }
    }
    if !placed {
        far_king(rng, &mut p, winner, k);
    }
    let set: &[Piece] = match rng.below(6) {
        0 => &[Piece::Queen],
        1 => &[Piece::Rook],
        2 => &[Piece::Bishop, Piece::Bishop],
        3 => &[Piece::Queen, Piece::Rook],
        4 => &[Piece::Rook, Piece::Rook],
        _ => &[Piece::Queen, Piece::Knight],
    };
    for &pc in set {
        // near the losing king
        let mut done = false;
        for _ in 0..10 {
            let (df, dr) = (rng.range(-3, 3) as i32, rng.range(-3, 3) as i32);
            if on(kf + df, kr + dr) && p.sq[idx(kf + df, kr + dr)].is_none() {
                p.sq[idx(kf + df, kr + dr)] = Some((winner, pc));
                done = true;
                break;
            }
        }
        if !done {
            let s = empty_sq(rng, &mut p);
            p.sq[s] = Some((winner, pc));
        }
    }
    // smothering own pieces for the loser sometimes
    for _ in 0..rng.below(3) {
        let &(df, dr) = rng.pick(&KING_D);
        if on(kf + df, kr + dr) && p.sq[idx(kf + df, kr + dr)].is_none() {
            let r = kr + dr;
            let pc = if r == 0 || r == 7 { Piece::Knight } else { *rng.pick(&[Piece::Pawn, Piece::Knight, Piece::Bishop]) };
            p.sq[idx(kf + df, kr + dr)] = Some((loser, pc));
        }
    }
    random_clocks(rng, &mut p, false);
    if rng.chance(1, 3) {
        p.half = *rng.pick(&[98, 99, 100, 100]);
    }
    p
}

/// Positions aiming at the maximum number of move batches (16 mobile pieces + two EP capturers).
pub fn max_batch_case(rng: &mut Rng) -> RPos {
    let mut p = RPos::empty();
    let us = rc(rng);
    let them = other(us);
    p.stm = us;
    let r4 = rel_rank(them, 4);
    let f = rng.range(1, 6) as i32;
    p.sq[idx(f, r4)] = Some((them, Piece::Pawn));
    p.ep = Some(f as u8);
    p.sq[idx(f - 1, r4)] = Some((us, Piece::Pawn));
    p.sq[idx(f + 1, r4)] = Some((us, Piece::Pawn));
    // six more own pawns spread out on the third rank (all mobile)
    let r3 = rel_rank(us, 3);
    let mut pawns = 2;
    for ff in 0..8 {
        if pawns < 8 && p.sq[idx(ff, r3)].is_none() {
            p.sq[idx(ff, r3)] = Some((us, Piece::Pawn));
            pawns += 1;
        }
    }
    // king and seven pieces on the first two ranks
    let r1 = rel_rank(us, 1);
    let r2 = rel_rank(us, 2);
    if rng.chance(1, 2) {
        // castling-ready back rank (king between two rooks with rights, nothing else on it), the
        // five other pieces on the second rank: 16 mobile men + two EP capturers + castling
        let kf = rng.range(1, 6) as i32;
        let lf = rng.range(0, kf as i64 - 1) as i32;
        let rf = rng.range(kf as i64 + 1, 7) as i32;
        p.sq[idx(kf, r1)] = Some((us, Piece::King));
        p.sq[idx(lf, r1)] = Some((us, Piece::Rook));
        p.sq[idx(rf, r1)] = Some((us, Piece::Rook));
        p.rights[ci(us)] = [Some(rf as u8), Some(lf as u8)];
        let kinds = [Piece::Queen, Piece::Bishop, Piece::Bishop, Piece::Knight, Piece::Knight];
        let mut files: Vec<i32> = (0..8).collect();
        rng.shuffle(&mut files);
        for (i, &pc) in kinds.iter().enumerate() {
            p.sq[idx(files[i], r2)] = Some((us, pc));
        }
    } else {
        let kinds = [Piece::King, Piece::Queen, Piece::Rook, Piece::Rook, Piece::Bishop, Piece::Bishop, Piece::Knight, Piece::Knight];
        let mut files: Vec<i32> = (0..8).collect();
        rng.shuffle(&mut files);
        for (i, &pc) in kinds.iter().enumerate() {
            let r = if rng.chance(1, 2) { r1 } else { r2 };
            p.sq[idx(files[i], r)] = Some((us, pc));
        }
    }
    let k = p.king_sq(us).unwrap();
    // enemy king far away on its back ranks
    loop {
        let s = idx(rng.range(0, 7) as i32, rel_rank(them, 1));
        if p.sq[s].is_none() && !adjacent(s, k) {
            p.sq[s] = Some((them, Piece::King));
            break;
        }
    }
    random_clocks(rng, &mut p, false);
    p
}

/// Several same-kind pieces (as after promotions) attacking one square, some of them pinned or
/// unable to resolve a check, so that SAN disambiguation must consider legal moves only.
pub fn san_ambiguity_case(rng: &mut Rng) -> RPos {
    let mut p = RPos::empty();
    let us = rc(rng);
    let them = other(us);
    p.stm = us;
    let kind = *rng.pick(&[Piece::Queen, Piece::Knight, Piece::Rook, Piece::Bishop]);
    let target = rng.usize(64);
    let (tf, tr) = fr(target);
    let k = loop {
        let s = rng.usize(64);
        if s != target {
            break s;
        }
    };
    p.sq[k] = Some((us, Piece::King));
    far_king(rng, &mut p, them, k);
    if rng.chance(1, 2) && p.sq[target].is_none() {
        p.sq[target] = Some((them, *rng.pick(&[Piece::Knight, Piece::Bishop, Piece::Rook, Piece::Queen])));
    }
    let n = 2 + rng.below(3);
    for _ in 0..n {
        // a square from which `kind` attacks the target
        for _ in 0..10 {
            let s = match kind {
                Piece::Knight => {
                    let &(df, dr) = rng.pick(&KNIGHT_D);
                    if on(tf + df, tr + dr) {
                        idx(tf + df, tr + dr)
                    } else {
                        continue;
                    }
                }
                _ => {
                    let dirs: &[(i32, i32)] = match kind {
                        Piece::Rook => &ROOK_D,
                        Piece::Bishop => &BISHOP_D,
                        _ => &KING_D,
                    };
                    let &(df, dr) = rng.pick(dirs);
                    let n = rng.range(1, 7) as i32;
                    if on(tf + df * n, tr + dr * n) {
                        idx(tf + df * n, tr + dr * n)
                    } else {
                        continue;
                    }
                }
            };
            if p.sq[s].is_none() {
                p.sq[s] = Some((us, kind));
                break;
            }
        }
    }
    // enemy sliders aimed at our king (to pin some of the candidates or give check)
    let (kf, kr) = fr(k);
    for _ in 0..rng.below(3) {
        let &(df, dr) = rng.pick(&KING_D);
        let n = rng.range(2, 7) as i32;
        if on(kf + df * n, kr + dr * n) {
            let s = idx(kf + df * n, kr + dr * n);
            if p.sq[s].is_none() {
                let diag = df != 0 && dr != 0;
                p.sq[s] = Some((them, if diag { Piece::Bishop } else { Piece::Rook }));
            }
        }
    }
    random_clocks(rng, &mut p, false);
    p
}

/// Boxed-in king whose side has (almost) no mobile piece except, possibly, a pinned slider that can
/// still slide along its pin line: positions where "has a legal move" hinges on a single batch.
pub fn few_movers_case(rng: &mut Rng) -> RPos {
    let mut p = RPos::empty();
    let us = rc(rng);
    let them = other(us);
    p.stm = us;
    // our king in a corner or on an edge
    let corner = *rng.pick(&[0usize, 7, 56, 63, 1, 6, 8, 15, 48, 55, 57, 62]);
    p.sq[corner] = Some((us, Piece::King));
    let (kf, kr) = fr(corner);
    // enemy king two squares away taking the flight squares
    let mut placed = false;
    for _ in 0..30 {
        let (df, dr) = (rng.range(-2, 2) as i32, rng.range(-2, 2) as i32);
        if df.abs().max(dr.abs()) == 2 && on(kf + df, kr + dr) {
            let s = idx(kf + df, kr + dr);
            if p.sq[s].is_none() {
                p.sq[s] = Some((them, Piece::King));
                placed = true;
                break;
            }
        }
    }
    if !placed {
        far_king(rng, &mut p, them, corner);
    }
    // a pinned slider of ours: on a line from the king, with an enemy slider behind it
    let &(df, dr) = rng.pick(&KING_D);
    let mut ray = Vec::new();
    let (mut f, mut r) = (kf + df, kr + dr);
    while on(f, r) {
        ray.push(idx(f, r));
        f += df;
        r += dr;
    }
    if ray.len() >= 2 {
        let a = rng.usize(ray.len() - 1);
        let b = a + 1 + rng.usize(ray.len() - a - 1);
        let diag = df != 0 && dr != 0;
        let along = if diag { Piece::Bishop } else { Piece::Rook };
        let across = if diag { Piece::Rook } else { Piece::Bishop };
        if p.sq[ray[a]].is_none() && p.sq[ray[b]].is_none() {
            let mine = match rng.below(4) {
                0 => Piece::Queen,
                1 => across, // pinned and immobile
                _ => along,  // pinned but mobile along the line
            };
            p.sq[ray[a]] = Some((us, mine));
            p.sq[ray[b]] = Some((them, if rng.chance(1, 3) { Piece::Queen } else { along }));
        }
    }
    // enemy pieces covering the remaining flight squares
    for _ in 0..rng.below(4) {
        let s = empty_sq(rng, &mut p);
        let (_, rr) = fr(s);
        let mut pc = *rng.pick(&[Piece::Knight, Piece::Bishop, Piece::Rook, Piece::Queen, Piece::Pawn]);
        if pc == Piece::Pawn && (rr == 0 || rr == 7) {
            pc = Piece::Knight;
        }
        p.sq[s] = Some((them, pc));
    }
    // blocked own pawns (immobile)
    for _ in 0..rng.below(3) {
        let ff = rng.range(0, 7) as i32;
        let rr = rng.range(2, 5) as i32;
        let (a, b) = (idx(ff, rr), idx(ff, rr + fwd(us)));
        if p.sq[a].is_none() && p.sq[b].is_none() && on(ff, rr + fwd(us)) && rr + fwd(us) != 0 && rr + fwd(us) != 7 {
            p.sq[a] = Some((us, Piece::Pawn));
            p.sq[b] = Some((them, Piece::Pawn));
        }
    }
    random_clocks(rng, &mut p, false);
    if rng.chance(1, 4) {
        p.half = *rng.pick(&[99, 100]);
    }
    p
}

/// A right-carrying rook (with its king on the back rank) attacked by a piece of every kind of the
/// side to move, king included, so that capturing it must remove the victim's right; often the
/// capturer is itself a rook on its own right's square, or a pawn promoting by the capture.
pub fn rook_right_capture_case(rng: &mut Rng) -> RPos {
    let mut p = RPos::empty();
    let us = rc(rng);
    let them = other(us);
    p.stm = us;
    let vbr = rel_rank(them, 1);
    let kf = rng.range(1, 6) as i32;
    p.sq[idx(kf, vbr)] = Some((them, Piece::King));
    let wing = rng.usize(2);
    let rf = if wing == 0 { rng.range(kf as i64 + 1, 7) as i32 } else { rng.range(0, kf as i64 - 1) as i32 };
    let rook = idx(rf, vbr);
    p.sq[rook] = Some((them, Piece::Rook));
    p.rights[ci(them)][wing] = Some(rf as u8);
    // the other wing too, sometimes
    if rng.chance(1, 2) {
        let of = if wing == 0 { rng.range(0, kf as i64 - 1) as i32 } else { rng.range(kf as i64 + 1, 7) as i32 };
        if p.sq[idx(of, vbr)].is_none() {
            p.sq[idx(of, vbr)] = Some((them, Piece::Rook));
            p.rights[ci(them)][1 - wing] = Some(of as u8);
        }
    }
    let kind = *rng.pick(&[Piece::King, Piece::King, Piece::Queen, Piece::Rook, Piece::Bishop, Piece::Knight, Piece::Pawn]);
    let d = fwd(us);
    let mut our_king_placed = false;
    let att: Option<usize> = match kind {
        Piece::King => {
            let cands: Vec<usize> = KING_D.iter().map(|&(df, dr)| (rf + df, vbr + dr)).filter(|&(x, y)| on(x, y) && p.sq[idx(x, y)].is_none()).map(|(x, y)| idx(x, y)).collect();
            let cands: Vec<usize> = cands.into_iter().filter(|&s| !adjacent(s, idx(kf, vbr))).collect();
            if cands.is_empty() {
                None
            } else {
                our_king_placed = true;
                Some(*rng.pick(&cands))
            }
        }
        Piece::Knight => {
            let cands: Vec<usize> = KNIGHT_D.iter().map(|&(df, dr)| (rf + df, vbr + dr)).filter(|&(x, y)| on(x, y) && p.sq[idx(x, y)].is_none()).map(|(x, y)| idx(x, y)).collect();
            if cands.is_empty() {
                None
            } else {
                Some(*rng.pick(&cands))
            }
        }
        Piece::Pawn => {
            // a pawn of ours one rank before the victim's back rank, on an adjacent file
            let df = if rng.chance(1, 2) { 1 } else { -1 };
            let (x, y) = (rf + df, vbr - d);
            if on(x, y) && p.sq[idx(x, y)].is_none() {
                Some(idx(x, y))
            } else {
                None
            }
        }
        _ => {
            let dirs: Vec<(i32, i32)> = match kind {
                Piece::Rook => ROOK_D.to_vec(),
                Piece::Bishop => BISHOP_D.to_vec(),
                _ => KING_D.to_vec(),
            };
            let &(df, dr) = rng.pick(&dirs);
            let n = rng.range(1, 7) as i32;
            let (x, y) = (rf + df * n, vbr + dr * n);
            if on(x, y) && p.sq[idx(x, y)].is_none() {
                // the line must be clear
                let clear = (1..n).all(|i| p.sq[idx(rf + df * i, vbr + dr * i)].is_none());
                if clear {
                    Some(idx(x, y))
                } else {
                    None
                }
            } else {
                None
            }
        }
    };
    if let Some(a) = att {
        p.sq[a] = Some((us, kind));
        // a rook capturer on its own right's square
        if kind == Piece::Rook {
            let (af, ar) = fr(a);
            if ar == rel_rank(us, 1) {
                let okf = (0..8).filter(|&x| x != af && p.sq[idx(x, ar)].is_none()).collect::<Vec<i32>>();
                if !okf.is_empty() {
                    let mykf = *rng.pick(&okf);
                    p.sq[idx(mykf, ar)] = Some((us, Piece::King));
                    p.rights[ci(us)][if af > mykf { 0 } else { 1 }] = Some(af as u8);
                    our_king_placed = true;
                }
            }
        }
    }
    if !our_king_placed {
        far_king(rng, &mut p, us, idx(kf, vbr));
    }
    for _ in 0..rng.below(4) {
        let s = empty_sq(rng, &mut p);
        let (_, r) = fr(s);
        let mut pc = *rng.pick(&NONKING);
        if pc == Piece::Pawn && (r == 0 || r == 7) {
            pc = Piece::Knight;
        }
        p.sq[s] = Some((rc(rng), pc));
    }
    random_clocks(rng, &mut p, false);
    p
}

/// Position *before* a double pawn push that uncovers a check from a slider standing behind the
/// pawn's origin square (along the pusher's second rank or a diagonal), together with the push.
/// Playing the push gives a reachable-style position with an EP file and a discovered (sometimes
/// double) check. Returns (position before, from, to).
pub fn ep_discovery_case(rng: &mut Rng) -> Option<(RPos, usize, usize)> {
    let mut p = RPos::empty();
    let us = rc(rng); // the side that pushes
    let them = other(us);
    p.stm = us;
    let f = rng.range(0, 7) as i32;
    let r2 = rel_rank(us, 2);
    let origin = idx(f, r2);
    let d = fwd(us);
    let (s1, s2) = (idx(f, r2 + d), idx(f, r2 + 2 * d));
    p.sq[origin] = Some((us, Piece::Pawn));
    // line through the origin: along the rank or a diagonal
    let dirs: [(i32, i32); 6] = [(1, 0), (-1, 0), (1, 1), (1, -1), (-1, 1), (-1, -1)];
    let &(df, dr) = rng.pick(&dirs);
    let (n1, n2) = (rng.range(1, 6) as i32, rng.range(1, 6) as i32);
    let (kx, ky) = (f + df * n1, r2 + dr * n1);
    let (sx, sy) = (f - df * n2, r2 - dr * n2);
    if !on(kx, ky) || !on(sx, sy) {
        return None;
    }
    let (ksq, ssq) = (idx(kx, ky), idx(sx, sy));
    if ksq == s1 || ksq == s2 || ssq == s1 || ssq == s2 {
        return None;
    }
    p.sq[ksq] = Some((them, Piece::King));
    let diag = df != 0 && dr != 0;
    p.sq[ssq] = Some((us, if rng.chance(1, 3) { Piece::Queen } else if diag { Piece::Bishop } else { Piece::Rook }));
    // our own king somewhere safe
    far_king(rng, &mut p, us, ksq);
    // capturers for the EP file, sometimes
    for dfc in [-1, 1] {
        if on(f + dfc, r2 + 2 * d) && rng.chance(1, 2) {
            let c = idx(f + dfc, r2 + 2 * d);
            if p.sq[c].is_none() {
                p.sq[c] = Some((them, Piece::Pawn));
            }
        }
    }
    for _ in 0..rng.below(4) {
        let s = empty_sq(rng, &mut p);
        if s == s1 || s == s2 {
            continue;
        }
        // keep the discovery line clear
        let (x, y) = fr(s);
        let on_line = (1..8).any(|i| (f + df * i, r2 + dr * i) == (x, y) || (f - df * i, r2 - dr * i) == (x, y));
        if on_line {
            continue;
        }
        let mut pc = *rng.pick(&NONKING);
        if pc == Piece::Pawn && (y == 0 || y == 7) {
            pc = Piece::Knight;
        }
        p.sq[s] = Some((rc(rng), pc));
    }
    random_clocks(rng, &mut p, false);
    Some((p, origin, s2))
}

/// Dense, maximally fragmented placements (pieces on alternating squares): the longest placement
/// fields a FEN can have (up to 71 characters), many pieces per side, few empty runs merged.
pub fn dense_fragmented_case(rng: &mut Rng) -> RPos {
    loop {
        let mut p = RPos::empty();
        p.stm = rc(rng);
        let parity = rng.below(2) as i32;
        let mut squares: Vec<usize> = (0..64).filter(|&s| ((s % 8) as i32 + (s / 8) as i32) % 2 == parity).collect();
        rng.shuffle(&mut squares);
        let n = 26 + rng.usize(7); // 26..32 pieces in all
        let mut counts = [[0usize; 2]; 2];
        let mut placed = 0;
        // kings first
        let wk = squares[0];
        let bk = match squares.iter().copied().find(|&s| s != wk && !adjacent(s, wk)) {
            Some(s) => s,
            None => continue,
        };
        p.sq[wk] = Some((Color::White, Piece::King));
        p.sq[bk] = Some((Color::Black, Piece::King));
        counts[0][0] = 1;
        counts[1][0] = 1;
        for &s in &squares {
            if placed + 2 >= n {
                break;
            }
            if p.sq[s].is_some() {
                continue;
            }
            let c = if counts[0][0] <= counts[1][0] { Color::White } else { Color::Black };
            if counts[ci(c)][0] >= 16 {
                continue;
            }
            let (_, r) = fr(s);
            let mut pc = *rng.pick(&[Piece::Pawn, Piece::Pawn, Piece::Knight, Piece::Bishop, Piece::Rook, Piece::Queen]);
            if pc == Piece::Pawn && (r == 0 || r == 7 || counts[ci(c)][1] >= 8) {
                pc = Piece::Knight;
            }
            p.sq[s] = Some((c, pc));
            counts[ci(c)][0] += 1;
            if pc == Piece::Pawn {
                counts[ci(c)][1] += 1;
            }
            placed += 1;
        }
        random_clocks(rng, &mut p, false);
        if rng.chance(1, 2) {
            backed_rights(rng, &mut p, 80);
        }
        // must be sound and the mover attacked by at most two pieces, otherwise it is not a board
        if p.structurally_sound().is_ok() && p.checkers().len() <= 2 {
            return p;
        }
    }
}

/// Base for "castling is the only legal move": Chess960 king on (or next to) its castling square
/// with the castling rook beside it, hemmed in by blocked pawns and covered flight squares.
fn castle_boxed_base(rng: &mut Rng) -> RPos {
    let mut p = RPos::empty();
    let us = rc(rng);
    let them = other(us);
    p.stm = us;
    let br = rel_rank(us, 1);
    let d = fwd(us);
    let short = rng.chance(1, 2);
    // king on its castling destination, or one file away from it; rook adjacent on the outer side
    let (kf, rf) = if short {
        *rng.pick(&[(6, 7), (6, 7), (5, 6), (5, 7)])
    } else {
        *rng.pick(&[(2, 1), (2, 0), (2, 1), (3, 2), (1, 0)])
    };
    p.sq[idx(kf, br)] = Some((us, Piece::King));
    p.sq[idx(rf, br)] = Some((us, Piece::Rook));
    p.rights[ci(us)][if short { 0 } else { 1 }] = Some(rf as u8);
    // own pawns in front, each blocked by an enemy pawn
    for f in (kf - 1).max(0)..=(kf.max(rf) + 1).min(7) {
        if rng.chance(2, 3) {
            let (a, b) = (idx(f, br + d), idx(f, br + 2 * d));
            if p.sq[a].is_none() && p.sq[b].is_none() {
                p.sq[a] = Some((us, Piece::Pawn));
                p.sq[b] = Some((them, Piece::Pawn));
            }
        } else if rng.chance(1, 2) {
            // an enemy pawn on our second rank (covers two back-rank squares)
            let a = idx(f, br + d);
            if p.sq[a].is_none() {
                p.sq[a] = Some((them, Piece::Pawn));
            }
        }
    }
    // the enemy king close by, covering flight squares
    for _ in 0..30 {
        let s = idx(rng.range(0, 7) as i32, br + d * rng.range(1, 3) as i32);
        if p.sq[s].is_none() && !adjacent(s, idx(kf, br)) {
            p.sq[s] = Some((them, Piece::King));
            break;
        }
    }
    if p.king_sq(them).is_none() {
        far_king(rng, &mut p, them, idx(kf, br));
    }
    // a few enemy pieces aimed at the back rank
    for _ in 0..rng.below(3) {
        let s = empty_sq(rng, &mut p);
        let (_, r) = fr(s);
        let mut pc = *rng.pick(&[Piece::Knight, Piece::Bishop, Piece::Rook, Piece::Queen]);
        if r == br {
            pc = Piece::Knight;
        }
        p.sq[s] = Some((them, pc));
    }
    random_clocks(rng, &mut p, false);
    p
}

/// Rejection-sampled rare classes: positions in which *every* legal move is a castling move, every
/// legal move is an en passant capture, or there is exactly one legal move. Bounded tries; the last
/// sample is returned if the class was not hit.
pub fn special_class_case(rng: &mut Rng) -> (RPos, &'static str) {
    let which = rng.below(3);
    let mut last = RPos::empty();
    for _ in 0..400 {
        let p = match which {
            0 => castle_boxed_base(rng),
            1 => ep_case(rng),
            _ => match rng.below(3) {
                0 => few_movers_case(rng),
                1 => mating_case(rng),
                _ => castle_boxed_base(rng),
            },
        };
        if p.structurally_sound().is_err() || p.checkers().len() > 2 {
            continue;
        }
        let legal = p.legal_moves();
        let hit = match which {
            0 => !legal.is_empty() && legal.iter().all(|&m| p.is_castle(m)),
            1 => !legal.is_empty() && legal.iter().all(|&m| p.is_ep_capture(m)),
            _ => legal.len() == 1,
        };
        if hit {
            return (p, match which {
                0 => "only-castling-legal",
                1 => "only-en-passant-legal",
                _ => "exactly-one-legal-move",
            });
        }
        last = p;
    }
    (last, "special-class-not-hit")
}

/// Records of maximal length: 32 men strictly alternating with single empty squares on every rank
/// (71-character placement), four castling rights, an EP square, half-move clock 100 and a five-digit
/// full-move number: 91 characters, the longest record the library can print.
pub fn max_record_case(rng: &mut Rng) -> RPos {
    for _ in 0..600 {
        let mut p = RPos::empty();
        let us = rc(rng); // side to move; the other side has just double-pushed
        let them = other(us);
        p.stm = us;
        let f = rng.range(0, 7) as i32;
        let (r4, r3, r2) = (rel_rank(them, 4), rel_rank(them, 3), rel_rank(them, 2));
        // parity per rank: square (x, y) is occupied iff (x + par[y]) is even
        let mut par = [0i32; 8];
        for y in 0..8 {
            par[y] = rng.below(2) as i32;
        }
        par[r4 as usize] = f % 2; // occupied at f
        par[r3 as usize] = (f + 1) % 2; // empty at f
        par[r2 as usize] = (f + 1) % 2; // empty at f
        let occ = |x: i32, y: i32| (x + par[y as usize]) % 2 == 0;
        // back ranks: R . K . R . X . (or shifted): rook, king, rook on the first three occupied files
        let mut ok = true;
        for &c in &[Color::White, Color::Black] {
            let y = rel_rank(c, 1);
            let files: Vec<i32> = (0..8).filter(|&x| occ(x, y)).collect();
            let k = 1 + rng.usize(2); // king on the 2nd or 3rd occupied file
            for (i, &x) in files.iter().enumerate() {
                let pc = if i == k {
                    Piece::King
                } else if i + 1 == k || i == k + 1 {
                    Piece::Rook
                } else {
                    *rng.pick(&[Piece::Knight, Piece::Bishop, Piece::Queen])
                };
                p.sq[idx(x, y)] = Some((c, pc));
            }
            p.rights[ci(c)] = [Some(files[k + 1] as u8), Some(files[k - 1] as u8)];
        }
        // the pushed pawn
        p.sq[idx(f, r4)] = Some((them, Piece::Pawn));
        p.ep = Some(f as u8);
        // remaining men: 12 per side on ranks 2..7, pawns first (8 per side, not on the back ranks)
        let mut cnt = [[4usize, 0usize], [4usize, 0usize]];
        cnt[ci(them)][0] += 1;
        cnt[ci(them)][1] += 1;
        let mut cells: Vec<(i32, i32)> = Vec::new();
        for y in 1..7 {
            for x in 0..8 {
                if occ(x, y) && p.sq[idx(x, y)].is_none() {
                    cells.push((x, y));
                }
            }
        }
        rng.shuffle(&mut cells);
        for (x, y) in cells {
            // colour by board half with some mixing, keeping 16 per side
            let mut c = if (y <= 3) == rng.chance(4, 5) { Color::White } else { Color::Black };
            if cnt[ci(c)][0] >= 16 {
                c = other(c);
            }
            if cnt[ci(c)][0] >= 16 {
                ok = false;
                break;
            }
            let pc = if cnt[ci(c)][1] < 8 && rng.chance(3, 4) { Piece::Pawn } else { *rng.pick(&[Piece::Knight, Piece::Bishop, Piece::Queen, Piece::Rook]) };
            p.sq[idx(x, y)] = Some((c, pc));
            cnt[ci(c)][0] += 1;
            if pc == Piece::Pawn {
                cnt[ci(c)][1] += 1;
            }
        }
        if !ok {
            continue;
        }
        p.half = 100;
        p.full = 10000 + rng.below(55536) as u32;
        if p.structurally_sound().is_ok() && p.checkers().len() <= 2 {
            let k = p.king_sq(us).unwrap();
            let origin = idx(f, r2);
            let pawn = idx(f, r4);
            // EP must be consistent with the checkers for the library to accept the board
            let consistent = p.checkers().iter().all(|&c| c == pawn || (crate::refmodel::geom::between(c, k) >> origin) & 1 == 1);
            if consistent {
                return p;
            }
        }
    }
    dense_fragmented_case(rng)
}

/// Unusual material: one side owns many promoted pieces of one kind (up to 15 queens / knights /
/// bishops / rooks next to its king), far beyond what counting heuristics expect.
pub fn heavy_material_case(rng: &mut Rng) -> RPos {
    loop {
        let mut p = RPos::empty();
        p.stm = rc(rng);
        place_kings(rng, &mut p, 0);
        let rich = rc(rng);
        let kind = *rng.pick(&[Piece::Queen, Piece::Queen, Piece::Knight, Piece::Bishop, Piece::Rook]);
        let n = 9 + rng.usize(7); // 9..15 of that kind
        for _ in 0..n {
            let s = empty_sq(rng, &mut p);
            p.sq[s] = Some((rich, kind));
        }
        for _ in 0..rng.below(6) {
            let s = empty_sq(rng, &mut p);
            let (_, r) = fr(s);
            let mut pc = *rng.pick(&NONKING);
            if pc == Piece::Pawn && (r == 0 || r == 7) {
                pc = Piece::Knight;
            }
            p.sq[s] = Some((other(rich), pc));
        }
        random_clocks(rng, &mut p, false);
        if p.structurally_sound().is_ok() && p.checkers().len() <= 2 {
            return p;
        }
    }
}

/// Sliders stacked on the rays of one king: on each ray a first blocker (a piece of the king's side,
/// possibly pinned, or a non-attacking piece of the other side), sometimes a second one, and behind
/// them up to every remaining square filled with sliders that attack along that ray. Many aligned
/// attackers, x-rays through several pieces, no check from the stacked sliders themselves.
pub fn stacked_rays_case(rng: &mut Rng) -> RPos {
    const DIRS: [(i32, i32); 8] = [(1, 0), (-1, 0), (0, 1), (0, -1), (1, 1), (1, -1), (-1, 1), (-1, -1)];
    loop {
        let mut p = RPos::empty();
        let them = rc(rng); // owner of the king in the centre of the rays
        let us = other(them);
        p.stm = rc(rng);
        let k = rng.usize(64);
        p.sq[k] = Some((them, Piece::King));
        let (kf, kr) = fr(k);
        let fill_pct = *rng.pick(&[40u64, 70, 100]);
        for &(df, dr) in DIRS.iter() {
            if rng.chance(1, 5) {
                continue;
            }
            let diag = df != 0 && dr != 0;
            let mut ray: Vec<usize> = Vec::new();
            let (mut f, mut r) = (kf + df, kr + dr);
            while (0..8).contains(&f) && (0..8).contains(&r) {
                ray.push(idx(f, r));
                f += df;
                r += dr;
            }
            if ray.len() < 2 {
                continue;
            }
            let first = rng.usize(ray.len() - 1);
            let blockers = if rng.chance(1, 4) { 2 } else { 1 };
            let mut i = first;
            for _ in 0..blockers {
                if i >= ray.len() - 1 {
                    break;
                }
                let (_, rr) = fr(ray[i]);
                let edge = rr == 0 || rr == 7;
                let own = rng.chance(2, 3);
                let pc = if own {
                    let c = *rng.pick(&NONKING);
                    if c == Piece::Pawn && edge { Piece::Knight } else { c }
                } else {
                    // a piece of the attacking side that does not attack along this ray
                    match rng.below(3) {
                        0 => Piece::Knight,
                        1 if !edge && i > 0 => Piece::Pawn,
                        _ => if diag { Piece::Rook } else { Piece::Bishop },
                    }
                };
                p.sq[ray[i]] = Some((if own { them } else { us }, pc));
                i += 1 + rng.usize(2);
            }
            for &s in ray.iter().skip(first + 1) {
                if p.sq[s].is_none() && rng.chance(fill_pct, 100) {
                    let pc = if rng.chance(1, 2) { Piece::Queen } else if diag { Piece::Bishop } else { Piece::Rook };
                    p.sq[s] = Some((us, pc));
                }
            }
        }
        if p.sq.iter().filter(|x| x.is_none()).count() < 2 {
            continue;
        }
        let uk = empty_sq(rng, &p);
        if adjacent(uk, k) {
            continue;
        }
        p.sq[uk] = Some((us, Piece::King));
        random_clocks(rng, &mut p, false);
        if p.structurally_sound().is_ok() && p.checkers().len() <= 2 {
            return p;
        }
    }
}

/// Base for double-check classes: a king (often with castling rights and a clear path) attacked by
/// two pieces at once (knight / pawn / slider in any combination).
fn double_check_base(rng: &mut Rng) -> RPos {
    let mut p = RPos::empty();
    let us = rc(rng);
    let them = other(us);
    p.stm = us;
    let br = rel_rank(us, 1);
    let d = fwd(us);
    let with_castle = rng.chance(1, 2);
    let (kf, kr) = if with_castle { (rng.range(1, 6) as i32, br) } else { (rng.range(0, 7) as i32, rng.range(0, 7) as i32) };
    let k = idx(kf, kr);
    p.sq[k] = Some((us, Piece::King));
    if with_castle {
        if rng.chance(3, 4) {
            let rf = rng.range(kf as i64 + 1, 7) as i32;
            p.sq[idx(rf, br)] = Some((us, Piece::Rook));
            p.rights[ci(us)][0] = Some(rf as u8);
        }
        if rng.chance(3, 4) {
            let rf = rng.range(0, kf as i64 - 1) as i32;
            p.sq[idx(rf, br)] = Some((us, Piece::Rook));
            p.rights[ci(us)][1] = Some(rf as u8);
        }
    }
    // two (sometimes one or three) checkers
    let n = *rng.pick(&[2usize, 2, 2, 2, 1, 3]);
    for _ in 0..n {
        match rng.below(4) {
            0 => {
                let &(df, dr) = rng.pick(&KNIGHT_D);
                if on(kf + df, kr + dr) && p.sq[idx(kf + df, kr + dr)].is_none() {
                    p.sq[idx(kf + df, kr + dr)] = Some((them, Piece::Knight));
                }
            }
            1 => {
                let df = if rng.chance(1, 2) { 1 } else { -1 };
                let r = kr + d;
                if on(kf + df, r) && r != 0 && r != 7 && p.sq[idx(kf + df, r)].is_none() {
                    p.sq[idx(kf + df, r)] = Some((them, Piece::Pawn));
                }
            }
            _ => {
                let &(df, dr) = rng.pick(&KING_D);
                let nn = rng.range(1, 7) as i32;
                let (x, y) = (kf + df * nn, kr + dr * nn);
                if on(x, y) && p.sq[idx(x, y)].is_none() && (1..nn).all(|i| p.sq[idx(kf + df * i, kr + dr * i)].is_none()) {
                    let diag = df != 0 && dr != 0;
                    p.sq[idx(x, y)] = Some((them, if rng.chance(1, 3) { Piece::Queen } else if diag { Piece::Bishop } else { Piece::Rook }));
                }
            }
        }
    }
    // the enemy king: opposition or far
    let mut placed = false;
    for _ in 0..10 {
        let (df, dr) = (rng.range(-2, 2) as i32, rng.range(-2, 2) as i32);
        if df.abs().max(dr.abs()) == 2 && on(kf + df, kr + dr) && p.sq[idx(kf + df, kr + dr)].is_none() && rng.chance(1, 2) {
            p.sq[idx(kf + df, kr + dr)] = Some((them, Piece::King));
            placed = true;
            break;
        }
    }
    if !placed {
        far_king(rng, &mut p, them, k);
    }
    // own pieces that might capture a checker or interpose (they must not be allowed to)
    for _ in 0..rng.below(4) {
        let s = empty_sq(rng, &mut p);
        let (_, r) = fr(s);
        let mut pc = *rng.pick(&NONKING);
        if pc == Piece::Pawn && (r == 0 || r == 7) {
            pc = Piece::Knight;
        }
        p.sq[s] = Some((us, pc));
    }
    for _ in 0..rng.below(3) {
        let s = empty_sq(rng, &mut p);
        let (_, r) = fr(s);
        let mut pc = *rng.pick(&NONKING);
        if pc == Piece::Pawn && (r == 0 || r == 7) {
            pc = Piece::Bishop;
        }
        p.sq[s] = Some((them, pc));
    }
    random_clocks(rng, &mut p, false);
    if rng.chance(1, 4) {
        p.half = *rng.pick(&[99, 100]);
    }
    p
}

/// Further rejection-sampled rare classes (see `special_class_case`): the mover is in double check
/// (with castling rights; mated; with a single escape), or the only pseudo-legal move is an en passant
/// capture that is illegal (so the position is stalemate or mate although a capture "exists").
pub fn special_class_case2(rng: &mut Rng) -> (RPos, &'static str) {
    let which = rng.below(4);
    let mut last = RPos::empty();
    for _ in 0..400 {
        let p = match which {
            3 => {
                // EP geometry with a hemmed-in king
                let mut q = ep_case(rng);
                // strip most other movers of the side to move
                for s in 0..64 {
                    if let Some((c, pc)) = q.sq[s] {
                        if c == q.stm && pc != Piece::King && pc != Piece::Pawn && rng.chance(3, 4) {
                            q.sq[s] = None;
                        }
                    }
                }
                q
            }
            _ => double_check_base(rng),
        };
        if p.structurally_sound().is_err() || p.checkers().len() > 2 {
            continue;
        }
        let legal = p.legal_moves();
        let nchk = p.checkers().len();
        let hit = match which {
            0 => nchk == 2 && (p.rights[ci(p.stm)][0].is_some() || p.rights[ci(p.stm)][1].is_some()),
            1 => nchk == 2 && legal.is_empty(),
            2 => nchk == 2 && legal.len() == 1,
            _ => legal.is_empty() && p.pseudo_moves().iter().any(|&m| p.is_ep_capture(m)),
        };
        if hit {
            return (p, match which {
                0 => "double-check-with-castling-rights",
                1 => "double-check-mate",
                2 => "double-check-single-escape",
                _ => "no-legal-move-but-illegal-en-passant-exists",
            });
        }
        last = p;
    }
    (last, "special-class-not-hit")
}
