//! xoshiro256** with splitmix64 seeding; no third-party crates are available offline.

#[derive(Clone, Debug)]
pub struct Rng {
    s: [u64; 4],
}

fn splitmix(x: &mut u64) -> u64 {
    *x = x.wrapping_add(0x9E3779B97F4A7C15);
    let mut z = *x;
    z = (z ^ (z >> 30)).wrapping_mul(0xBF58476D1CE4E5B9);
    z = (z ^ (z >> 27)).wrapping_mul(0x94D049BB133111EB);
    z ^ (z >> 31)
}

impl Rng {
    pub fn new(seed: u64) -> Self {
        let mut x = seed ^ 0xA076_1D64_78BD_642F;
        let s = [splitmix(&mut x), splitmix(&mut x), splitmix(&mut x), splitmix(&mut x)];
        Rng { s }
    }

    /// Independent stream for (seed, shard, purpose).
    pub fn derive(seed: u64, shard: u64, purpose: u64) -> Self {
        let mut x = seed.wrapping_mul(0x2545F4914F6CDD1D) ^ shard.wrapping_mul(0x9E3779B97F4A7C15) ^ purpose.wrapping_mul(0xD6E8FEB86659FD93);
        let a = splitmix(&mut x);
        Rng::new(a)
    }

    pub fn next_u64(&mut self) -> u64 {
        let result = self.s[1].wrapping_mul(5).rotate_left(7).wrapping_mul(9);
        let t = self.s[1] << 17;
        self.s[2] ^= self.s[0];
        self.s[3] ^= self.s[1];
        self.s[1] ^= self.s[2];
        self.s[0] ^= self.s[3];
        self.s[2] ^= t;
        self.s[3] = self.s[3].rotate_left(45);
        result
    }

    /// Uniform in 0..n (n > 0).
    pub fn below(&mut self, n: u64) -> u64 {
        debug_assert!(n > 0);
        // multiply-shift; the tiny bias is irrelevant for workload generation
        ((self.next_u64() as u128 * n as u128) >> 64) as u64
    }

    pub fn usize(&mut self, n: usize) -> usize {
        self.below(n as u64) as usize
    }

    pub fn range(&mut self, lo: i64, hi_incl: i64) -> i64 {
        lo + self.below((hi_incl - lo + 1) as u64) as i64
    }

    /// true with probability num/den
    pub fn chance(&mut self, num: u64, den: u64) -> bool {
        self.below(den) < num
    }

    pub fn pick<'a, T>(&mut self, xs: &'a [T]) -> &'a T {
        &xs[self.usize(xs.len())]
    }

    pub fn shuffle<T>(&mut self, xs: &mut [T]) {
        for i in (1..xs.len()).rev() {
            let j = self.usize(i + 1);
            xs.swap(i, j);
        }
    }

    /// 64-bit value with roughly `density`/64 bits set.
    pub fn sparse(&mut self, k: u32) -> u64 {
        // AND of k draws gives density 2^-k; OR of k draws gives 1-2^-k
        let mut v = self.next_u64();
        for _ in 1..k {
            v &= self.next_u64();
        }
        v
    }
}
