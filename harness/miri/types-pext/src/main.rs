//! Miri driver for the one `unsafe` block of the workspace: the `_pext_u64` intrinsic behind the
//! PEXT slider index (types crate built with `--features pext`, RUSTFLAGS=-Ctarget-feature=+bmi2).
//! For every square and a spread of occupancies the index must stay inside the table, equal
//! occupancies on the relevant mask must give equal indices and different ones different indices
//! within a square, and the slow reference attack generator must agree with a ray walk.

use cozy_chess_types::*;

fn walk(s: usize, occ: u64, dirs: &[(i32, i32)]) -> u64 {
    let (f, r) = ((s % 8) as i32, (s / 8) as i32);
    let mut out = 0u64;
    for &(df, dr) in dirs {
        let (mut cf, mut cr) = (f + df, r + dr);
        while (0..8).contains(&cf) && (0..8).contains(&cr) {
            let t = (cr * 8 + cf) as usize;
            out |= 1u64 << t;
            if (occ >> t) & 1 == 1 {
                break;
            }
            cf += df;
            cr += dr;
        }
    }
    out
}

fn main() {
    let args: Vec<String> = std::env::args().collect();
    let per_square: u64 = args.get(1).and_then(|x| x.parse().ok()).unwrap_or(24);
    let mut x: u64 = 0x9E3779B97F4A7C15;
    let mut next = || {
        x ^= x << 13;
        x ^= x >> 7;
        x ^= x << 17;
        x
    };
    let mut calls = 0u64;
    for s in 0..64usize {
        let sq = Square::ALL[s];
        for rook in [true, false] {
            let mask = if rook { get_rook_relevant_blockers(sq) } else { get_bishop_relevant_blockers(sq) };
            let base = if rook { get_rook_moves_index(sq, BitBoard::EMPTY) } else { get_bishop_moves_index(sq, BitBoard::EMPTY) };
            let mut seen: Vec<(u64, usize)> = Vec::new();
            for i in 0..per_square {
                let occ = match i {
                    0 => 0,
                    1 => !0u64,
                    2 => mask.0,
                    3 => !mask.0,
                    _ => next() & if i % 2 == 0 { next() } else { !0 },
                };
                let ix = if rook { get_rook_moves_index(sq, BitBoard(occ)) } else { get_bishop_moves_index(sq, BitBoard(occ)) };
                calls += 1;
                assert!(ix < SLIDING_MOVE_TABLE_SIZE, "index {} outside the table for square {} occ {:#x}", ix, s, occ);
                assert!(ix >= base && ix < base + (1usize << mask.len()), "index outside the square's own slice");
                let rel = occ & mask.0;
                for &(r2, i2) in &seen {
                    assert_eq!(r2 == rel, i2 == ix, "index is not a function of exactly the relevant bits (square {})", s);
                }
                seen.push((rel, ix));
                let slow = if rook { get_rook_moves_slow(sq, BitBoard(occ)) } else { get_bishop_moves_slow(sq, BitBoard(occ)) };
                let dirs: &[(i32, i32)] = if rook { &[(1, 0), (-1, 0), (0, 1), (0, -1)] } else { &[(1, 1), (1, -1), (-1, 1), (-1, -1)] };
                assert_eq!(slow.0, walk(s, occ, dirs), "reference attack generator disagrees with a ray walk");
            }
        }
    }
    println!("MIRI-TYPES-PEXT OK calls={}", calls);
}
